"""Core helpers of the /verif check driver: build, TLC, harness, findings, evidence."""
import json
import os
import re
import shutil
import subprocess
import sys
import time

VERIF = os.path.dirname(os.path.dirname(os.path.abspath(__file__)))
SPEC = os.path.join(VERIF, "spec")
HARNESS = os.path.join(VERIF, "harness")
WORK = os.path.join(VERIF, ".work")
EVID = os.path.join(VERIF, "evidence")
REPLAY_DIR = os.path.join(EVID, "replay")
FINDINGS = os.path.join(VERIF, "findings", "known_findings.json")
BIN = os.path.join(HARNESS, "target", "debug", "opwv")


class Hang(Exception):
    """The harness gave up (exit code 97): a call of the code under test did not return within the stall limit."""


class ToolError(Exception):
    """Something in the machinery (not the code under test) failed: exit code 2."""


def log(*a):
    print(*a, file=sys.stderr, flush=True)


class Ctx:
    def __init__(self, pid, tier, seed):
        self.pid = pid
        self.tier = tier
        self.seed = seed
        self.quick = tier == "quick"
        self.t0 = time.time()
        self.work = os.path.join(WORK, pid + "-" + tier)
        shutil.rmtree(self.work, ignore_errors=True)
        os.makedirs(self.work, exist_ok=True)
        # coverage accounting
        self.states = 0
        self.transitions = 0
        self.traces = 0            # behaviours / events bound to the implementation
        self.evaluations = 0
        self.nontrivial = set()
        self.samples = []
        self.tlc_runs = []
        self.notes = []
        self.violations = []       # dicts: {sig, detail, replay(optional data)}
        self.exhaustive = False
        self.extra = {}

    def path(self, name):
        return os.path.join(self.work, name)

    def sample(self, s, cap=5):
        if len(self.samples) < cap:
            self.samples.append(s)

    def violation(self, sig, detail, data=None):
        self.violations.append({"sig": sig, "detail": detail, "data": data})


# --------------------------------------------------------------------------- build
_built = False


def build_harness():
    global _built
    if _built:
        return
    t = time.time()
    env = dict(os.environ)
    env["CARGO_NET_OFFLINE"] = "true"
    repo = os.environ.get("VERIF_REPO")
    if repo and VERIF != "/verif":
        # background runs from a snapshot of /verif (vp run --with-repo) may point the harness at a snapshot of the
        # repository; the registered checks always build against /repo itself
        toml = os.path.join(HARNESS, "Cargo.toml")
        text = open(toml).read()
        text2 = re.sub(r'path = "[^"]*"', 'path = "%s"' % repo, text, count=1)
        if text2 != text:
            open(toml, "w").write(text2)
    r = subprocess.run(["cargo", "build", "--offline", "-q"], cwd=HARNESS, env=env,
                       stdout=subprocess.PIPE, stderr=subprocess.STDOUT, text=True)
    if r.returncode != 0:
        log(r.stdout[-6000:])
        raise ToolError("harness build failed (does /repo still compile with --cfg opw_verif?)")
    _built = True
    log("[build] harness built in %.1fs" % (time.time() - t))


def opwv(ctx, args, stdin_path=None, out_path=None, timeout=3600, env_extra=None):
    """Run the harness binary. Returns stdout text (or writes it to out_path)."""
    build_harness()
    env = dict(os.environ)
    env["VERIF_SEED"] = str(ctx.seed)
    env["VERIF_TIER"] = ctx.tier
    env["RUST_BACKTRACE"] = "0"
    if env_extra:
        env.update(env_extra)
    t = time.time()
    fin = open(stdin_path) if stdin_path else subprocess.DEVNULL
    fout = open(out_path, "w") if out_path else subprocess.PIPE
    try:
        r = subprocess.run([BIN] + [str(a) for a in args], stdin=fin, stdout=fout,
                           stderr=subprocess.PIPE, text=True, timeout=timeout, env=env)
    except subprocess.TimeoutExpired:
        raise ToolError("harness timed out: %s" % " ".join(map(str, args)))
    finally:
        if stdin_path:
            fin.close()
        if out_path:
            fout.close()
    if r.returncode == 97:
        log(r.stderr[-1000:])
        raise Hang(" ".join(map(str, args[:2])))
    if r.returncode != 0:
        log(r.stderr[-4000:])
        raise ToolError("harness failed (%d): %s" % (r.returncode, " ".join(map(str, args))))
    log("[opwv] %s  %.1fs" % (" ".join(map(str, args)), time.time() - t))
    return r.stdout if not out_path else None


# --------------------------------------------------------------------------- TLC
_STATES = re.compile(r"^(\d+) states generated, (\d+) distinct states found", re.M)


def tlc(ctx, module, cfg=None, workers=8, env_extra=None, timeout=3600, simulate=None,
        java_opts="-Xss1g", xmx="6g", allow_invariant_violation=False, constants=None):
    """Run TLC on spec/<module>.tla with spec/<cfg>.cfg. Returns dict with stdout lines, counts.

    `constants` (dict) rewrites `NAME = value` lines of the cfg into a private copy, so that
    the same module serves the quick and thorough bounds.
    """
    cfg = cfg or module
    cfg_path = os.path.join(SPEC, cfg + ".cfg")
    if constants:
        text = open(cfg_path).read()
        for k, v in constants.items():
            text, n = re.subn(r"(?m)^(\s*(?:CONSTANTS?\s+)?)%s\s*=.*$" % re.escape(k),
                              lambda mo: "%s%s = %s" % (mo.group(1), k, v), text)
            if n == 0:
                raise ToolError("constant %s not in %s" % (k, cfg_path))
        cfg_path = ctx.path(cfg + ".cfg")
        open(cfg_path, "w").write(text)
    meta = ctx.path("tlc-" + module + "-" + str(len(ctx.tlc_runs)))
    env = dict(os.environ)
    env["JAVA_TOOL_OPTIONS"] = java_opts
    if env_extra:
        env.update({k: str(v) for k, v in env_extra.items()})
    # use the wrapper on PATH (knows the CommunityModules classpath)
    cmd = ["tlc", "-workers", str(workers), "-metadir", meta, "-cleanup", "-noGenerateSpecTE",
           "-config", cfg_path]
    if simulate:
        cmd += ["-simulate", simulate]
    cmd += [os.path.join(SPEC, module + ".tla")]
    t = time.time()
    try:
        r = subprocess.run(cmd, cwd=SPEC, env=env, stdout=subprocess.PIPE, stderr=subprocess.STDOUT,
                           text=True, timeout=timeout)
    except subprocess.TimeoutExpired:
        raise ToolError("TLC timed out on " + module)
    finally:
        shutil.rmtree(meta, ignore_errors=True)
    out = r.stdout
    wall = time.time() - t
    m = _STATES.findall(out)
    gen, dist = (int(m[-1][0]), int(m[-1][1])) if m else (0, 0)
    res = {"module": module, "cfg": cfg, "generated": gen, "distinct": dist, "wall_s": round(wall, 1),
           "out": out, "rc": r.returncode}
    ctx.tlc_runs.append({k: res[k] for k in ("module", "cfg", "generated", "distinct", "wall_s")})
    ctx.states += dist
    ctx.transitions += gen
    log("[tlc] %s: %d generated, %d distinct, %.1fs" % (module, gen, dist, wall))
    bad = ("Error:" in out) or ("error" in out.lower() and "No error has been found" not in out
                                and "Finished in" not in out)
    if ("is violated" in out or "is equal to FALSE" in out) and allow_invariant_violation:
        res["invariant_violated"] = True
        return res
    if "Error:" in out or r.returncode != 0 or not m:
        log(out[-5000:])
        raise ToolError("TLC reported an error on %s (spec bug or design-level finding)" % module)
    return res


def expect_rejected(ctx, module, cfg, label, constants=None, workers=8):
    """Non-vacuity: a named deviation of the model (a design that is known to be wrong, usually the defect that was
    found in the code) must be REJECTED by TLC; otherwise the invariant would be satisfied by anything."""
    res = tlc(ctx, module, cfg=cfg, workers=workers, allow_invariant_violation=True, constants=constants)
    if not res.get("invariant_violated"):
        raise ToolError("vacuous invariant: the deviation '%s' (%s / %s) is not rejected" % (label, module, cfg))
    ctx.extra.setdefault("deviation_models_rejected", []).append(label)


def apalache(ctx, module, inv, timeout=900):
    """Symbolic (SMT) check of a state invariant over the initial states with Apalache: spec/apalache/<module>.tla.
    Runs on a private copy so that no output lands in /verif/spec."""
    src = os.path.join(SPEC, "apalache", module + ".tla")
    d = ctx.path("apalache-" + module)
    os.makedirs(d, exist_ok=True)
    shutil.copy(src, d)
    t = time.time()
    try:
        r = subprocess.run(["apalache-mc", "check", "--init=Init", "--next=Next", "--inv=" + inv, "--length=0",
                            "--out-dir=" + os.path.join(d, "out"), module + ".tla"], cwd=d, stdout=subprocess.PIPE,
                           stderr=subprocess.STDOUT, text=True, timeout=timeout)
    except subprocess.TimeoutExpired:
        raise ToolError("Apalache timed out on " + module)
    ok = "The outcome is: NoError" in r.stdout
    log("[apalache] %s %s: %s  %.1fs" % (module, inv, "NoError" if ok else "ERROR", time.time() - t))
    ctx.extra.setdefault("symbolic_checks", []).append({"tool": "apalache-mc 0.58", "module": module, "invariant": inv,
                                                        "outcome": "NoError" if ok else "Error", "wall_s": round(time.time() - t, 1)})
    if not ok:
        log(r.stdout[-3000:])
        raise ToolError("Apalache reports an error on %s (the specification itself is inconsistent)" % module)
    shutil.rmtree(d, ignore_errors=True)


def tlc_json_lines(out, tag=None):
    """TLC prints PrintT(ToJson(x)) as a TLA+ string literal, one per line; decode those."""
    res = []
    for line in out.splitlines():
        line = line.strip()
        if len(line) > 2 and line[0] == '"' and line[-1] == '"' and line[1] in "{[":
            try:
                v = json.loads(json.loads(line))
            except Exception:
                continue
            if tag is None or (isinstance(v, dict) and v.get("gen") == tag) or \
                    (isinstance(v, dict) and v.get("tag") == tag):
                res.append(v)
    if tag is not None and all(isinstance(v, dict) and "gen" in v for v in res):
        # TLC's workers print in a nondeterministic order: fix the order so that ids (and the seeded choices the
        # harness derives from them) are reproducible
        res.sort(key=lambda v: json.dumps(v, sort_keys=True))
    return res


def write_ndjson(path, items):
    with open(path, "w") as f:
        for it in items:
            f.write(json.dumps(it, separators=(",", ":")) + "\n")


def read_ndjson(path):
    res = []
    with open(path) as f:
        for line in f:
            line = line.strip()
            if line:
                res.append(json.loads(line))
    return res


def trace_validate(ctx, module, trace_path, cfg=None, env_extra=None, timeout=3600, xmx="8g"):
    """Validate an ndjson trace against a trace spec. The trace spec never blocks: it prints one
    JSON line {"tag":"viol","l":<line>,"clause":[..]} per offending event and one
    {"tag":"done","n":<events consumed>, ...} at the end. Returns (viols, done)."""
    n_events = sum(1 for _ in open(trace_path))
    env = {"TRACE": trace_path}
    if env_extra:
        env.update(env_extra)
    res = tlc(ctx, module, cfg=cfg, workers=1, env_extra=env, timeout=timeout, xmx=xmx,
              java_opts="-Xss1g -Dtlc2.tool.queue.IStateQueue=StateDeque")
    lines = tlc_json_lines(res["out"])
    viols = [v for v in lines if isinstance(v, dict) and v.get("tag") == "viol"]
    done = [v for v in lines if isinstance(v, dict) and v.get("tag") == "done"]
    if not done or done[-1].get("n") != n_events:
        log(res["out"][-3000:])
        raise ToolError("trace spec %s did not consume the whole trace (%s of %d events)" %
                        (module, done[-1].get("n") if done else "?", n_events))
    ctx.traces += n_events
    return viols, done[-1]


# --------------------------------------------------------------------------- findings
def load_findings():
    if not os.path.exists(FINDINGS):
        return []
    return json.load(open(FINDINGS))


def finish(ctx, level="model_checking", rule="", assumptions=None, explanation=None):
    """Map violations to known findings, print lines, write evidence, return exit code."""
    findings = load_findings()
    open_sigs = {}
    for f in findings:
        if f.get("property") == ctx.pid and f.get("status") == "open":
            open_sigs[f["signature"]] = f
    os.makedirs(REPLAY_DIR, exist_ok=True)
    by_sig = {}
    for v in ctx.violations:
        by_sig.setdefault(v["sig"], []).append(v)
    new = 0
    known = 0
    lines = []
    unlisted = []
    for sig, vs in sorted(by_sig.items()):
        if sig in open_sigs:
            known += 1
            lines.append("KNOWN-FINDING: property=%s %s [%s] (%d occurrence(s); e.g. %s)" %
                         (ctx.pid, open_sigs[sig]["what"], sig, len(vs), vs[0]["detail"][:300]))
        else:
            new += 1
            unlisted.append({"signature": sig, "occurrences": len(vs),
                             "cases": [{"detail": v["detail"], "data": v["data"]} for v in vs[:5]]})
            if new <= 12:
                log("  signature: %s  (%d occurrence(s))  e.g. %s" % (sig, len(vs), vs[0]["detail"][:400]))
    if new:
        # one VIOLATION line per run; the replay file lists every unlisted signature with example cases
        rp = os.path.join(REPLAY_DIR, "%s-%s.json" % (ctx.pid, ctx.tier))
        json.dump({"property": ctx.pid, "tier": ctx.tier, "seed": ctx.seed, "unlisted_signatures": unlisted},
                  open(rp, "w"), indent=1)
        lines.append("VIOLATION property=%s replay=%s" % (ctx.pid, rp))
        if new > 12:
            log("  ... and %d more signatures (see replay file)" % (new - 12))
    cov = {
        "states": ctx.states,
        "transitions": ctx.transitions,
        "traces_validated_against_impl": ctx.traces,
        "evaluations": ctx.evaluations,
        "distinct_nontrivial": len(ctx.nontrivial),
        "rule": rule,
        "samples": ctx.samples[:5] if ctx.samples else ["(no sample recorded)"],
        "exhaustive": ctx.exhaustive,
        "tlc_runs": ctx.tlc_runs,
        "violation_signatures": sorted(by_sig.keys()),
        "known_findings_matched": known,
    }
    if explanation:
        cov["explanation"] = explanation
    cov.update(ctx.extra)
    ev = {
        "property_id": ctx.pid,
        "tier": ctx.tier,
        "seed": ctx.seed,
        "level": level,
        "coverage": cov,
        "assumptions": (assumptions or []) + ctx.notes,
        "wall_s": round(time.time() - ctx.t0, 1),
        "violations": new,
    }
    os.makedirs(EVID, exist_ok=True)
    json.dump(ev, open(os.path.join(EVID, ctx.pid + ".json"), "w"), indent=1)
    for l in lines:
        print(l, flush=True)
    if new == 0:
        print("OK property=%s tier=%s states=%d bound_to_impl=%d evaluations=%d wall=%.0fs" %
              (ctx.pid, ctx.tier, ctx.states, ctx.traces, ctx.evaluations, time.time() - ctx.t0), flush=True)
    if not os.environ.get("VERIF_KEEP_WORK"):
        shutil.rmtree(ctx.work, ignore_errors=True)
    return 1 if new else 0
