"""Per-property pipelines. Each function builds its evidence through core.Ctx and returns the exit code."""
import json
import os

from . import core
from .core import tlc, tlc_json_lines, opwv, trace_validate, write_ndjson, read_ndjson, finish, apalache, expect_rejected

CHECKS = {}


def check(pid):
    def deco(fn):
        CHECKS[pid] = fn
        return fn
    return deco


def replay_results(ctx, path, prefix):
    """Read the harness' replay output: mismatch lines {sig, detail, data?} and a final stats line."""
    stats = {}
    for rec in read_ndjson(path):
        if "stats" in rec:
            stats = rec["stats"]
        elif "sample" in rec:
            ctx.sample(rec["sample"])
        else:
            ctx.violation(prefix + ":" + rec["sig"], rec.get("detail", ""), rec.get("data"))
    return stats


def viols_to_ctx(ctx, viols, trace_path, prefix, key=None):
    """Turn the trace spec's viol lines into violations; the offending event is the replay data."""
    if not viols:
        return
    events = read_ndjson(trace_path)
    for v in viols:
        e = events[v["l"] - 1]
        for clause in v["clause"]:
            extra = key(e) if key else ""
            name = clause if clause.startswith(prefix + ":") else prefix + ":" + clause
            ctx.violation("%s%s" % (name, (":" + extra) if extra else ""),
                          "event #%d: %s" % (v["l"], json.dumps(e)[:700]), e)


def session_histories(ctx, pid):
    """Histories of live constraint objects judged against the spec's own state (Trace_Session)."""
    opwv(ctx, ["record", "session", ctx.path("session.trace")])
    viols, done = trace_validate(ctx, "Trace_Session", ctx.path("session.trace"))
    ev = read_ndjson(ctx.path("session.trace"))
    for v in viols:
        e = ev[v["l"] - 1]
        for clause in v["clause"]:
            if clause.startswith(pid + ":") or clause.startswith("harness:"):
                ctx.violation(clause, "history event #%d %s" % (v["l"], json.dumps(e)[:500]), {"event": e, "line": v["l"]})
    ctx.evaluations += len(ev)
    ctx.extra["history_events"] = len(ev)


# ----------------------------------------------------------------------------- C07
@check("C07")
def c07(ctx):
    nn, rr = (24, 48) if ctx.quick else (72, 144)
    consts = {"NN": nn, "RR": rr}
    # (0) symbolic: the same equivalence, turn invariance, full turn and centre for ALL integers (1e-4 degree units)
    #     within +-4 turns, discharged by Apalache / z3 - not only on a lattice
    apalache(ctx, "LimitsApa", "All")
    # (1) model: the code's centre/tolerance structure is arc membership, on the whole lattice
    tlc(ctx, "MC_Limits", constants=consts, workers=8)
    # (2) B1: exact lattice verdicts replayed into the three constructors
    g = tlc(ctx, "Gen_Limits", constants=consts, workers=8)
    lines = tlc_json_lines(g["out"], "limits")
    if len(lines) != (2 * rr + 1) ** 2:
        raise core.ToolError("Gen_Limits printed %d behaviours, expected %d" % (len(lines), (2 * rr + 1) ** 2))
    write_ndjson(ctx.path("limits.ndjson"), lines)
    opwv(ctx, ["replay", "limits", ctx.path("limits.ndjson"), ctx.path("limits.out")])
    st = replay_results(ctx, ctx.path("limits.out"), "C07")
    ctx.evaluations += st.get("evaluations", 0)
    ctx.traces += len(lines)
    for ln in lines:
        if 0 in ln["acc2"] and 1 in ln["acc2"]:
            ctx.nontrivial.add((ln["f"], ln["t"]))
    ctx.sample({"from": lines[len(lines) // 3]["f"], "to": lines[len(lines) // 3]["t"], "units_per_turn": nn,
                "acc2_first_20": lines[len(lines) // 3]["acc2"][:20]})
    # (3) B2: random real limits judged by TLC in AU
    opwv(ctx, ["record", "limits", ctx.path("limits.trace")])
    viols, done = trace_validate(ctx, "Trace_Limits", ctx.path("limits.trace"))
    viols_to_ctx(ctx, viols, ctx.path("limits.trace"), "C07", key=lambda e: e.get("ctor", ""))
    ev = read_ndjson(ctx.path("limits.trace"))
    ctx.evaluations += len(ev)
    ctx.sample(ev[0])
    ctx.sample(ev[2])
    session_histories(ctx, "C07")
    ctx.exhaustive = True
    return finish(ctx, rule="every (from,to) on a %d-degree lattice in +-4pi (%d pairs) x every lattice angle and "
                  "the points 1e-9 beside it x 3 constructors, expected verdicts computed by TLC (Gen_Limits); "
                  "non-trivial = (from,to) pairs whose arc both accepts and rejects lattice angles; plus %d "
                  "random-real compliant/filter/centre events judged by TLC (Trace_Limits) in 1e-4 degree units"
                  % (360 // nn, len(lines), len(ev)),
                  assumptions=["exact float arc ends are demanded only for (-x,x) and (0,x) ranges; elsewhere "
                               "points closer than 1e-9 rad (lattice) / 3e-4 degree (random) to an end are don't-care",
                               "from > to with from == to (mod 2pi) is ambiguous in the statement: don't-care"])


# ----------------------------------------------------------------------------- C18
@check("C18")
def c18(ctx):
    nn, rr = (24, 24) if ctx.quick else (72, 72)
    apalache(ctx, "SamplerApa", "SampleOnArc")      # every integer offset of the specified sampler, symbolically
    expect_rejected(ctx, "MC_Limits", "MC_SamplerLegacy", "Limits!LegacySample (the two-segment sampler as found) leaves the arc")
    tlc(ctx, "MC_Limits", cfg="MC_Sampler", constants={"NN": nn, "RR": rr}, workers=8)
    opwv(ctx, ["record", "samples", ctx.path("samples.trace")])
    viols, done = trace_validate(ctx, "Trace_Limits", ctx.path("samples.trace"))

    def key(e):
        # class of the first joint that is off its arc is not known here; classify by wrap kind
        kinds = set()
        for f, t in zip(e["from"], e["to"]):
            if f > t:
                kinds.add("wrap")
        return "wrap" if kinds else "nowrap"
    viols_to_ctx(ctx, viols, ctx.path("samples.trace"), "C18", key=key)
    ev = read_ndjson(ctx.path("samples.trace"))
    ctx.evaluations += len(ev)
    session_histories(ctx, "C18")
    # the sampler as the joint-space planner uses it: a robot with a wrap-around range, collision checks off
    opwv(ctx, ["replay", "wrapsampling", ctx.path("wrap.out")])
    st = replay_results(ctx, ctx.path("wrap.out"), "C18")
    ctx.evaluations += st.get("evaluations", 0)
    ctx.extra["plans_with_wrap_around_limits"] = st.get("nontrivial", 0)
    for e in ev:
        ctx.nontrivial.add((tuple(e["from"]), tuple(e["to"])))
    ctx.sample(ev[0])
    ctx.sample(ev[len(ev) // 2])
    return finish(ctx, rule="every (from,to) on a 15-degree lattice in +-2pi on one joint (other joints from random "
                  "classes: narrow/wide/equal/full-turn/wrap positive/negative/straddling) plus random sets, several "
                  "draws each; each draw is one trace event judged by TLC's OnArc; distinct_nontrivial = distinct "
                  "constraint sets sampled",
                  assumptions=["thread_rng outcomes are sampled, not enumerated; the model (MC_Sampler) enumerates every "
                               "lattice offset of the specified one-segment sampler"])


# ----------------------------------------------------------------------------- C03
@check("C03")
def c03(ctx):
    if ctx.quick:
        # (0 and 6: the quarter turns 0 and 180 degrees - with whole turns added by the replay, model angles such as
        #  -3 pi; the others generic angles of three quadrants)
        consts = {"PSets": "{1, 2, 3, 4, 5, 6, 7}", "Angles": "{0, 1, 5, 6, 10}"}
    else:
        consts = {"PSets": "{1, 2, 3, 4, 5, 6, 7}", "Angles": "{0, 1, 3, 5, 6, 8, 10}"}
    g = tlc(ctx, "Gen_Chain", constants=consts, workers=8, xmx="12g")
    lines = tlc_json_lines(g["out"], "chain")
    if not lines:
        raise core.ToolError("Gen_Chain printed no behaviours")
    write_ndjson(ctx.path("chain.ndjson"), lines)
    opwv(ctx, ["replay", "chain", ctx.path("chain.ndjson"), ctx.path("chain.out")])
    st = replay_results(ctx, ctx.path("chain.out"), "C03")
    ctx.evaluations += st.get("evaluations", 0)
    ctx.traces += len(lines)
    for ln in lines:
        if sum(1 for k in ln["e"] if k % 3) >= 3:
            ctx.nontrivial.add((json.dumps(ln["p"], sort_keys=True), tuple(ln["e"])))
    opwv(ctx, ["record", "fk", ctx.path("fk.trace")])
    viols, done = trace_validate(ctx, "Trace_Chain", ctx.path("fk.trace"))
    viols_to_ctx(ctx, viols, ctx.path("fk.trace"), "C03", key=lambda e: e.get("class", ""))
    ev = read_ndjson(ctx.path("fk.trace"))
    ctx.evaluations += len(ev)
    ctx.sample(ev[1])
    ctx.exhaustive = True
    return finish(ctx, rule="every chain of six lattice angles (Angles^6) x parameter sets PSets generated by TLC action by "
                  "action with exact link poses (Gen_Chain), each replayed under several sign/offset/whole-turn conventions "
                  "into forward and forward_with_joint_poses (tolerance 1e-9); non-trivial = chains with >= 3 generic "
                  "(non quarter-turn) joints; plus random real robots judged by Trace_Chain from oracle facts",
                  assumptions=["agreement on the lattice pins every coefficient because each FK entry is multilinear in "
                               "(sin q_i, cos q_i)", "the float oracle (harness/src/oracle.rs) is itself replayed against "
                               "the exact TLA+ chain in the same run (signature chain:ORACLE:*)"])


# ----------------------------------------------------------------------------- C09
@check("C09")
def c09(ctx):
    if ctx.quick:
        consts = {"MaxDepth": 2, "Isos": "{1, 2, 3, 5, 7}", "Leafs": "{1, 2}"}
    else:
        consts = {"MaxDepth": 3, "Isos": "{1, 2, 3, 4, 5, 6, 7, 8}", "Leafs": "{1, 2, 3}"}
    # the recursive definitions of module Stack agree with the incremental model (small bound)
    tlc(ctx, "Gen_Stack", cfg="MC_Stack", workers=4)
    g = tlc(ctx, "Gen_Stack", constants=consts, workers=8, xmx="12g")
    lines = tlc_json_lines(g["out"], "stack")
    if not lines:
        raise core.ToolError("Gen_Stack printed no behaviours")
    write_ndjson(ctx.path("stack.ndjson"), lines)
    opwv(ctx, ["replay", "stack", ctx.path("stack.ndjson"), ctx.path("stack.out")])
    st = replay_results(ctx, ctx.path("stack.out"), "C09")
    ctx.evaluations += st.get("evaluations", 0)
    ctx.traces += len(lines)
    for ln in lines:
        if len(ln["layers"]) >= 2:
            ctx.nontrivial.add((tuple((l["k"], l["idx"]) for l in ln["layers"]), tuple(ln["e"])))
    # random real isometries: Solver contract (forward / link poses, answers map back, ordering, J6) behind stacks
    ev, viols = solver_trace(ctx, "C09", 6 if ctx.quick else 12)
    solver_report(ctx, ev, viols, "C09")
    # both constructors of a robot with shape build the stack Tool(Base(robot)): forward = base * robot * tool, link
    # poses pre-multiplied by the base (C11's trace spec, the two clauses that speak about the stack)
    opwv(ctx, ["record", "shape", ctx.path("shape.trace")])
    sviols, _ = trace_validate(ctx, "Trace_Shape", ctx.path("shape.trace"))
    sev = read_ndjson(ctx.path("shape.trace"))
    for v in sviols:
        e = sev[v["l"] - 1]
        for c in v["clause"]:
            if c in ("C11:forward-differs-from-stack", "C11:link-poses-differ-from-stack", "C11:answer-misses-pose"):
                ctx.violation("C09:shape:%s:%s" % (c.split(":", 1)[1], e.get("ctor")), "shape event #%d %s" % (v["l"], json.dumps(e)[:600]), e)
            # "each entry point keeps its own contract through the stack (continuation ordering ..)"
            if c == "C11:not-the-ordered-subsequence" and "continuing" in e.get("entry", ""):
                ctx.violation("C09:shape:continuation-order-not-the-stacks:%s" % e.get("ctor"), "shape event #%d %s" % (v["l"], json.dumps(e)[:600]), e)
    ctx.evaluations += len(sev)
    ctx.exhaustive = True
    return finish(ctx, rule="every stack of Tool/Frame/Base layers up to depth MaxDepth over the lattice isometries Isos "
                  "(plus LinearAxis/Gantry mounts) x leaf configurations, generated by TLC one Wrap action at a time with the "
                  "exact reported pose and link poses; each replayed around a recording leaf (all 4 inverse entries, forward, "
                  "link poses, limits, singularity) and around the real OPW solver; non-trivial = depth >= 2",
                  assumptions=["5-DOF clauses are replayed only for stacks whose tool/frame layers are axial (the statement's "
                               "presupposition)"])


# ----------------------------------------------------------------------------- solver family
def solver_trace(ctx, focus, instances, follow=False):
    """Gen_Scenarios -> harness instances -> Trace_Solver; returns (events, viols)."""
    g = tlc(ctx, "Gen_Scenarios", constants={"Thorough": "FALSE" if ctx.quick else "TRUE"}, workers=4)
    scs = tlc_json_lines(g["out"], "scenario")
    if not scs:
        raise core.ToolError("Gen_Scenarios printed nothing")
    write_ndjson(ctx.path("scenarios.ndjson"), scs)
    opwv(ctx, ["record", "ik", ctx.path("scenarios.ndjson"), ctx.path("ik.trace")],
         env_extra={"VERIF_FOCUS": focus, "VERIF_INSTANCES": str(instances)})
    if follow:
        opwv(ctx, ["record", "follow", ctx.path("follow.trace")])
        with open(ctx.path("ik.trace"), "a") as f:
            f.write(open(ctx.path("follow.trace")).read())
    viols, done = trace_validate(ctx, "Trace_Solver", ctx.path("ik.trace"), xmx="12g")
    ev = read_ndjson(ctx.path("ik.trace"))
    # (conformance, not the property: the repeated first call of a family answered differently)
    ctx.extra["families_of_related_robots"] = sum(1 for e in ev if e.get("member") == "again")
    ctx.extra["repeated_identical_calls_answered_differently"] = done.get("repeats_differ", 0)
    return ev, viols


def solver_report(ctx, ev, viols, pid):
    """Keep only the clauses of property `pid` (the other properties report their own)."""
    for v in viols:
        e = ev[v["l"] - 1]
        for clause in v["clause"]:
            # C09: "each entry point keeps its own contract through the stack": the soundness / ordering / 5-DOF clauses
            # observed behind a tool/base/frame stack are C09's as well
            if pid == "C09" and e.get("stack") not in (None, "bare") and not e.get("pgram") and \
                    clause.split(":")[0] in ("C01", "C04", "C06") and \
                    not (clause == "C04:previous-not-first" and e.get("pose_class") in ("on-j1-axis", "stretched")):
                # (previous-not-first at shoulder / elbow singular poses is the leaf solver's known finding, listed under C04)
                clause = "C09:through-stack:" + clause
            if not clause.startswith(pid + ":"):
                continue
            small = {k: e.get(k) for k in ("entry", "dof", "pose_class", "prev_class", "limits_class", "stack", "geom",
                                            "signs", "offsets", "w16", "params", "prev", "truth")}
            small["answers"] = e.get("answers", [])[:8]
            ctx.violation("%s:%s" % (clause, "pgram" if e.get("pgram") else e.get("pose_class", "trajectory")),
                          "event #%d %s" % (v["l"], json.dumps(small)[:900]), e)
    ctx.evaluations += len(ev)
    for e in ev:
        if e.get("answers"):
            ctx.nontrivial.add(e.get("sc", -1) if e["ev"] == "ik" else ("follow", e.get("geom"), e.get("stack")))
    for e in ev:
        if e.get("answers") and len(ctx.samples) < 2:
            ctx.sample({k: e[k] for k in e if k not in ("free", "plain", "params")})


SOLVER_RULE = ("scenario classes enumerated by TLC (Gen_Scenarios: entry x declared DOF x pose class x previous class x "
               "limit class, with geometry class / 64 sign patterns / offset class / weight / wrapper stack spread over "
               "them) x seeded numeric instances; every call is one trace event carrying oracle facts (distance of the "
               "independent forward model at each answer from the requested pose, nm/nrad) judged by the Solver contract "
               "in Trace_Solver; distinct_nontrivial = scenario classes with at least one non-empty answer")
SOLVER_ASSUME = ["numeric 1 um / 1 urad judgements are computed by the harness' float oracle (validated against the exact "
                 "TLA+ chain by C03) and consumed by the spec",
                 "singularity margins of the truth configuration: |sin q5|, |sin(elbow)| > 0.05, wrist centre > 5 cm from the J1 axis"]


@check("C01")
def c01(ctx):
    # the pipeline of inverse_continuing over abstract candidates: every path keeps the contract
    tlc(ctx, "SolverImpl", workers=8, xmx="12g")
    if not ctx.quick:
        # (non-vacuity of the model itself: depends on the specification only)
        expect_rejected(ctx, "SolverImpl", "SolverImplLeak", "SolverImpl!ShiftedLeak is reachable (answers taken over from a shifted pose)")
    # B1: exact singular / boundary lattice poses (quarter turns and one generic angle per joint): soundness of whatever is returned
    consts = {"PSets": "{1, 2, 3}", "Angles": "{0, 3, 6, 1}"} if ctx.quick else {"PSets": "{1, 2, 3, 4, 5}", "Angles": "{0, 3, 6, 9, 1}"}
    g = tlc(ctx, "Gen_Chain", constants=consts, workers=8, xmx="12g")
    lines = tlc_json_lines(g["out"], "chain")
    write_ndjson(ctx.path("chain.ndjson"), lines)
    opwv(ctx, ["replay", "chainedge", ctx.path("chain.ndjson"), ctx.path("chainedge.out")])
    st = replay_results(ctx, ctx.path("chainedge.out"), "C01")
    ctx.evaluations += st.get("evaluations", 0)
    ctx.traces += st.get("nontrivial", 0)
    ctx.extra["singular_lattice_calls_answered"] = st.get("nontrivial", 0)
    ev, viols = solver_trace(ctx, "", 6 if ctx.quick else 12)
    solver_report(ctx, ev, viols, "C01")
    return finish(ctx, rule=SOLVER_RULE, assumptions=SOLVER_ASSUME)


@check("C02")
def c02(ctx):
    # B1: exact poses of generic lattice configurations (Gen_Chain) solved by plain inverse
    consts = {"PSets": "{1, 2, 4}", "Angles": "{1, 2, 5, 10}"} if ctx.quick else {"PSets": "{1, 2, 3, 4, 5}", "Angles": "{1, 2, 4, 7, 10}"}
    g = tlc(ctx, "Gen_Chain", constants=consts, workers=8, xmx="12g")
    lines = tlc_json_lines(g["out"], "chain")
    write_ndjson(ctx.path("chain.ndjson"), lines)
    opwv(ctx, ["replay", "chainik", ctx.path("chain.ndjson"), ctx.path("chainik.out")])
    st = replay_results(ctx, ctx.path("chainik.out"), "C02")
    ctx.evaluations += st.get("evaluations", 0)
    ctx.traces += st.get("nontrivial", 0)
    ctx.extra["lattice_configurations_solved"] = st.get("nontrivial", 0)
    ev, viols = solver_trace(ctx, "C02", 18 if ctx.quick else 42)
    solver_report(ctx, ev, viols, "C02")
    return finish(ctx, rule=SOLVER_RULE, assumptions=SOLVER_ASSUME)


@check("C04")
def c04(ctx):
    ev, viols = solver_trace(ctx, "C04", 6 if ctx.quick else 12, follow=True)
    solver_report(ctx, ev, viols, "C04")
    # continuation order must survive the collision filter of a robot with shape (C11's trace spec, continuation entries)
    opwv(ctx, ["record", "shape", ctx.path("shape.trace")])
    sviols, _ = trace_validate(ctx, "Trace_Shape", ctx.path("shape.trace"))
    sev = read_ndjson(ctx.path("shape.trace"))
    for v in sviols:
        e = sev[v["l"] - 1]
        if "continuing" in e.get("entry", "") and any(c in ("C11:not-the-ordered-subsequence", "C11:answers-altered") for c in v["clause"]):
            ctx.violation("C04:order-lost-by-the-collision-filter:%s" % e["entry"], "shape event #%d %s" % (v["l"], json.dumps(e)[:600]), e)
    ctx.evaluations += len(sev)
    # ... and the convenience entry of a frame: forward_transformed(taught point, previous) orders by PREVIOUS
    opwv(ctx, ["record", "ftrans", ctx.path("ftrans.trace")])
    fviols, _ = trace_validate(ctx, "Trace_Frame", ctx.path("ftrans.trace"))
    fev = read_ndjson(ctx.path("ftrans.trace"))
    for v in fviols:
        if "C17:answers-not-ordered-by-closeness" in v["clause"]:
            e = fev[v["l"] - 1]
            ctx.violation("C04:forward-transformed-not-ordered-by-previous", "ftrans event #%d %s" % (v["l"], json.dumps(e)[:600]), e)
    ctx.evaluations += len(fev)
    ctx.extra["history_events"] = sum(1 for e in ev if e["ev"] == "follow")
    ctx.extra["histories"] = sum(1 for e in ev if e["ev"] == "reset")
    return finish(ctx, rule=SOLVER_RULE + "; histories: dense sinusoidal joint-space trajectories followed with "
                  "inverse_continuing, previous = preceding first answer (checked by the trace spec's state variable)",
                  assumptions=SOLVER_ASSUME + ["trajectories keep all three singularity margins >= 0.12..0.25 and stay inside +-2pi"])


@check("C06")
def c06(ctx):
    ev, viols = solver_trace(ctx, "C06", 9 if ctx.quick else 15)
    solver_report(ctx, ev, viols, "C06")
    return finish(ctx, rule=SOLVER_RULE, assumptions=SOLVER_ASSUME)


@check("C08")
def c08(ctx):
    ev, viols = solver_trace(ctx, "C08", 9 if ctx.quick else 15)
    solver_report(ctx, ev, viols, "C08")
    return finish(ctx, rule=SOLVER_RULE + "; every constrained call is paired with the same call on a twin robot without "
                  "limits, and TLC recomputes compliance of every unconstrained answer with OnArc",
                  assumptions=SOLVER_ASSUME)


# ----------------------------------------------------------------------------- C05
@check("C05")
def c05(ctx):
    g = tlc(ctx, "Gen_Singular", workers=4)
    lines = tlc_json_lines(g["out"], "singular")
    if not lines:
        raise core.ToolError("Gen_Singular printed nothing")
    write_ndjson(ctx.path("sing.ndjson"), lines)
    opwv(ctx, ["replay", "singular", ctx.path("sing.ndjson"), ctx.path("sing.out"), ctx.path("sing.trace")])
    st = replay_results(ctx, ctx.path("sing.out"), "C05")
    ctx.evaluations += st.get("evaluations", 0)
    ctx.traces += len(lines)
    for ln in lines:
        if ln["expect"]:
            ctx.nontrivial.add(("sing", ln["g5"], ln["sign5"], ln["off"], ln["stack"]))
    opwv(ctx, ["record", "cont", ctx.path("cont.trace")])
    with open(ctx.path("sing.trace"), "a") as f:
        f.write(open(ctx.path("cont.trace")).read())
    viols, done = trace_validate(ctx, "Trace_Singular", ctx.path("sing.trace"))
    ev = read_ndjson(ctx.path("sing.trace"))

    def key(e):
        if e["ev"] == "sing":
            return "offsets-%s:sign5%s" % (e["off"], "-" if e["sign5"] < 0 else "+")
        return "offsets-%s:sign5%s:s46-%s" % (e["offsets"], "-" if e["sign5"] < 0 else "+", "equal" if e["s46_equal"] else "opposite")
    for v in viols:
        e = ev[v["l"] - 1]
        for clause in v["clause"]:
            ctx.violation("%s:%s" % (clause, key(e)), "event #%d %s" % (v["l"], json.dumps(e)[:800]), e)
    ctx.evaluations += len(ev)
    n_dem = 0
    for e in ev:
        if e["ev"] == "cont" and e["sens_nrad"] < 250 and not e["other_singular"]:
            n_dem += 1
            ctx.nontrivial.add(("cont", tuple(e["truth"])))
    ctx.extra["continuity_cases_demanded"] = n_dem
    ctx.sample(lines[7])
    ctx.sample({k: v for k, v in ev[-1].items() if k != "params"})
    return finish(ctx, rule="detection: every multiple of pi k in -4..4 x either side x depths {0,1,50,90,110,200 AU, far} x sign5 x "
                  "offset class x wrapper, expected verdict computed by TLC (Gen_Singular) and cross-checked against the angle "
                  "between the J4/J6 axes of the independent chain (Trace_Singular); continuity: exactly singular random postures, "
                  "judged by Singular!Continuity when the oracle's arm sensitivity is below 0.25 urad; non-trivial = singular "
                  "scenarios / demanded continuity cases",
                  assumptions=["continuity demanded only below 0.25 urad arm sensitivity to the 0.125 um probing shift and when no "
                               "other IK branch is singular (the property's own precondition)",
                               "'J4 and J6 move by the same amount' is demanded for robots whose J4 and J6 sign corrections are equal"])


# ----------------------------------------------------------------------------- C16
@check("C16")
def c16(ctx):
    g = tlc(ctx, "Gen_Pgram", constants={"MaxDepth": 1 if ctx.quick else 2}, workers=8, xmx="12g")
    lines = tlc_json_lines(g["out"], "pgram")
    if not lines:
        raise core.ToolError("Gen_Pgram printed nothing")
    if not ctx.quick and len(lines) > 6000:
        # depth-2 stacks: keep every depth <= 1 behaviour and a seeded sample of the depth-2 ones
        import random
        rnd = random.Random(ctx.seed)
        deep = [ln for ln in lines if len(ln["layers"]) == 2]
        lines = [ln for ln in lines if len(ln["layers"]) < 2] + rnd.sample(deep, 5000)
    write_ndjson(ctx.path("pgram.ndjson"), lines)
    opwv(ctx, ["replay", "pgram", ctx.path("pgram.ndjson"), ctx.path("pgram.out")])
    st = replay_results(ctx, ctx.path("pgram.out"), "C16")
    ctx.evaluations += st.get("evaluations", 0)
    ctx.traces += len(lines)
    for ln in lines:
        if ln["layers"]:
            ctx.nontrivial.add(json.dumps(ln["layers"]) + str(ln["e"]))
    ev, viols = solver_trace(ctx, "C16", 9 if ctx.quick else 21)
    solver_report(ctx, ev, viols, "C16")
    return finish(ctx, rule="every coupling (driven != coupled, scaling in {-2,-1,-1/2,1/2,1,2}) that is exact on the lattice x 4 "
                  "configurations (and stacks of two couplings in the thorough tier), with the exact link poses of the inner robot "
                  "at the reduced vector computed by TLC (Gen_Pgram), replayed into forward / forward_with_joint_poses and the "
                  "four inverse entry points (round trip); plus random real couplings (scaling in [-2,2]) behind and in front of "
                  "tools as Solver trace events (clause Coupled)",
                  assumptions=SOLVER_ASSUME)


# ----------------------------------------------------------------------------- C15
@check("C15")
def c15(ctx):
    consts = {"PSets": "{1, 2, 4}", "Angles": "{0, 1, 3, 10}"} if ctx.quick else {"PSets": "{1, 2, 3, 4, 5}", "Angles": "{0, 1, 3, 5, 10}"}
    g = tlc(ctx, "Gen_Jacobian", constants=consts, workers=8, xmx="12g")
    lines = tlc_json_lines(g["out"], "jac")
    if not lines:
        raise core.ToolError("Gen_Jacobian printed nothing")
    write_ndjson(ctx.path("jac.ndjson"), lines)
    opwv(ctx, ["replay", "jac", ctx.path("jac.ndjson"), ctx.path("jac.out")])
    st = replay_results(ctx, ctx.path("jac.out"), "C15")
    ctx.evaluations += st.get("evaluations", 0)
    ctx.traces += len(lines)
    for ln in lines:
        ctx.nontrivial.add((json.dumps(ln["p"], sort_keys=True), tuple(ln["e"])))
    opwv(ctx, ["record", "jac", ctx.path("jac.trace")])
    viols, done = trace_validate(ctx, "Trace_Jacobian", ctx.path("jac.trace"))
    viols_to_ctx(ctx, viols, ctx.path("jac.trace"), "C15", key=lambda e: "")
    ev = read_ndjson(ctx.path("jac.trace"))
    ctx.evaluations += len(ev)
    ctx.extra["well_conditioned_events"] = sum(1 for e in ev if e.get("cond", 1 << 40) < 10000)
    ctx.sample({k: v for k, v in ev[0].items() if k != "params"})
    ctx.exhaustive = True
    return finish(ctx, rule="every lattice chain with 1..3 generic joints over Angles^6 x PSets with the exact geometric Jacobian "
                  "columns computed by TLC (Gen_Jacobian) replayed into Jacobian::new for eps in {1e-7,1e-6,1e-5} under plain "
                  "and signed/offset conventions (tolerance 20*eps*(1+reach)); plus random robots behind tool/base/frame stacks "
                  "judged by Trace_Jacobian (columns, torques = J^T w, velocities reproduce the twist when cond < 1e4, entry "
                  "points agree)",
                  assumptions=["the private matrix is observed through torques_from_vector(unit vectors)",
                               "allowed error 20*eps*(1+reach): second-order term of the forward difference"])


# ----------------------------------------------------------------------------- C17
@check("C17")
def c17(ctx):
    consts = {"K1": "{0, 1, 3, 5, 6, 8, 9, 10}", "K2": "{0, 1, 3, 6, 10}"} if ctx.quick else \
        {"K1": "{0, 1, 2, 3, 4, 5, 6, 7, 8, 9, 10, 11}", "K2": "{0, 1, 2, 3, 4, 5, 6, 7, 8, 9, 10, 11}"}
    g = tlc(ctx, "Gen_Frame3", constants=consts, workers=8)
    lines = tlc_json_lines(g["out"], "frame3")
    if not lines:
        raise core.ToolError("Gen_Frame3 printed nothing")
    write_ndjson(ctx.path("f3.ndjson"), lines)
    opwv(ctx, ["replay", "frame3", ctx.path("f3.ndjson"), ctx.path("f3.out")])
    st = replay_results(ctx, ctx.path("f3.out"), "C17")
    ctx.evaluations += st.get("evaluations", 0)
    ctx.traces += len(lines)
    for ln in lines:
        if not ln["collinear"]:
            ctx.nontrivial.add(json.dumps([ln["p"], ln["motion"]]))
    opwv(ctx, ["record", "ftrans", ctx.path("ftrans.trace")])
    viols, done = trace_validate(ctx, "Trace_Frame", ctx.path("ftrans.trace"))
    viols_to_ctx(ctx, viols, ctx.path("ftrans.trace"), "C17")
    ev = read_ndjson(ctx.path("ftrans.trace"))
    ctx.evaluations += len(ev)
    ctx.sample(ev[0])
    ctx.exhaustive = True
    return finish(ctx, rule="7 integer point triples (generic, far from the origin, nearly collinear, collinear, coincident) x lattice "
                  "rotations RotZ(k1)*RotX(k2) x 3 translations generated by TLC with the exact images (Gen_Frame3); the frame built "
                  "from each pair must equal the generating motion; perturbation families per behaviour: +3 mm / +8 mm along an edge, "
                  "mirrored target, exactly collinear target with a 1 mm-off source; plus forward_transformed events (Trace_Frame)",
                  assumptions=["tolerance 1e-9 (1e-6 for the nearly collinear triple whose normal is ill conditioned)"])


# ----------------------------------------------------------------------------- C10 / C14
def tasks_binding(ctx, pid, keep):
    """Gen_Collision -> hook H3 task sets; `keep` selects the signatures that belong to the property."""
    g = tlc(ctx, "Gen_Collision", constants={"MaxEntries": 1 if ctx.quick else 2}, workers=8)
    lines = tlc_json_lines(g["out"], "tasks")
    if not lines:
        raise core.ToolError("Gen_Collision printed nothing")
    write_ndjson(ctx.path("tasks.ndjson"), lines)
    opwv(ctx, ["replay", "tasks", ctx.path("tasks.ndjson"), ctx.path("tasks.out")])
    stats = {}
    for rec in read_ndjson(ctx.path("tasks.out")):
        if "stats" in rec:
            stats = rec["stats"]
        elif "sample" in rec:
            ctx.sample(rec["sample"])
        elif keep(rec["sig"]):
            ctx.violation(pid + ":" + rec["sig"], rec.get("detail", ""), rec.get("data"))
    ctx.evaluations += stats.get("evaluations", 0)
    ctx.extra["task_list_divergences_from_model"] = stats.get("divergences", 0)
    ctx.traces += len(lines)
    for ln in lines:
        if ln["table"]:
            ctx.nontrivial.add(json.dumps([ln["tool"], ln["base"], ln["nenv"], ln["table"]]))


@check("C10")
def c10(ctx):
    # all schedules of the parallel task evaluation, both modes
    tlc(ctx, "MC_Collision", constants={"Mode": '"first"'}, workers=8)
    tlc(ctx, "MC_Collision", constants={"Mode": '"all"'}, workers=8)
    tasks_binding(ctx, "C10", lambda sig: "after-single-joint-move" not in sig and ":offsets" not in sig)
    opwv(ctx, ["record", "collision", ctx.path("coll.trace")])
    viols, done = trace_validate(ctx, "Trace_Collision", ctx.path("coll.trace"), xmx="12g")
    ev = read_ndjson(ctx.path("coll.trace"))
    for v in viols:
        e = ev[v["l"] - 1]
        for clause in v["clause"]:
            small = {k: e[k] for k in ("api", "pool", "mode", "tool", "base", "nenv", "table", "def_env", "def_robot", "report", "verdict", "class", "case")}
            small["close_pairs"] = [p for p in e["pairs"] if p["d"] < 400000]
            ctx.violation("%s:%s:%s" % (clause, e["api"], e["class"].split(";")[0]), "event #%d %s" % (v["l"], json.dumps(small)[:900]), e)
    ctx.evaluations += len(ev)
    for e in ev:
        if e["report"]:
            ctx.nontrivial.add(e["case"])
    ctx.extra["pools"] = sorted({e["pool"] for e in ev})
    ctx.sample({k: ev[0][k] for k in ev[0] if k != "pairs"})
    return finish(ctx, rule="(a) MC_Collision: every schedule of W=3 workers over 4 tasks x every hit set, both modes; (b) Gen_Collision: "
                  "tool x base x 0..2 environment objects x safety tables of up to MaxEntries entries (reversed keys, pairs naming J1, "
                  "tool/base/environment pairs) with the pair set that must be evaluated, compared with the tasks emitted by hook H3 for "
                  "collision_details / collides / near; (c) constructive box scenes (size and vertex-count classes, gaps overlapping / "
                  "r-5mm / r+5mm / far, per-pair overrides, NEVER entries) x modes x rayon pools, each report judged by TLC from the "
                  "brute-force distance of every body pair; non-trivial = scenes with a non-empty report",
                  assumptions=["brute-force distances use parry's distance/intersection_test on the placed meshes (no pre-filter)",
                               "pairs whose distance is within 60 um of the threshold are don't-care"])


@check("C14")
def c14(ctx):
    tasks_binding(ctx, "C14", lambda sig: "after-single-joint-move" in sig or ":offsets" in sig)
    opwv(ctx, ["record", "offsets", ctx.path("off.trace")])
    viols, done = trace_validate(ctx, "Trace_Collision", ctx.path("off.trace"), xmx="12g")
    ev = read_ndjson(ctx.path("off.trace"))
    for v in viols:
        e = ev[v["l"] - 1]
        for clause in v["clause"]:
            ctx.violation("%s:%s" % (clause, e["class"]), "event #%d %s" % (v["l"], json.dumps(e)[:900]), e)
    ctx.evaluations += len(ev)
    for e in ev:
        if any(c["collides"] for c in e["cands"]):
            ctx.nontrivial.add(e["case"])
    ctx.sample({k: ev[0][k] for k in ("pool", "class", "moved_joint", "offered")})
    return finish(ctx, rule="(a) hook H3: for every Gen_Collision configuration the tasks enumerated for each of the 12 candidates must "
                  "cover every non-exempt pair with a moved member (Collision!MustCheck); (b) scenes laid out so that at one candidate "
                  "vector a chosen pair (moved vs unmoved / both moved, link / tool / base / environment) is overlapping, inside or "
                  "outside its safety distance, initial vector verified free; TLC recomputes limit compliance of the 12 candidates and "
                  "demands offered = legal and free (full check of the same robot), under rayon pools; non-trivial = cases with a "
                  "colliding candidate",
                  assumptions=["the full check used as reference is the library's own collides(), as the statement says"])


# ----------------------------------------------------------------------------- C11
@check("C11")
def c11(ctx):
    opwv(ctx, ["record", "shape", ctx.path("shape.trace")])
    viols, done = trace_validate(ctx, "Trace_Shape", ctx.path("shape.trace"))
    ev = read_ndjson(ctx.path("shape.trace"))
    for v in viols:
        e = ev[v["l"] - 1]
        for clause in v["clause"]:
            ctx.violation("%s:%s:%s" % (clause, e.get("ctor"), e.get("entry")), "event #%d %s" % (v["l"], json.dumps(e)[:900]), e)
    ctx.evaluations += len(ev)
    mixed = 0
    for e in ev:
        if e.get("collides") and any(e["collides"]) and not all(e["collides"]):
            mixed += 1
            ctx.nontrivial.add((e["case"], e["rep"], e["entry"]))
    ctx.extra["events_with_both_colliding_and_free_answers"] = mixed
    ctx.sample(next(e for e in ev if e.get("collides") and any(e["collides"])))
    return finish(ctx, rule="robots with shape (both constructors, first/all collision modes, touch-only and positive safety distances, "
                  "2..5 random environment boxes, random base/tool transforms) x random reachable poses x 4 inverse entry points: the "
                  "answers of the underlying stack (public field), the collides() verdict of each and the wrapper's answers are one "
                  "event; TLC demands outer = FilterFree(inner, collides); forward / link poses against the independent stack model; "
                  "non-trivial = events whose underlying answers are partly colliding",
                  assumptions=["the collides() verdict itself is C10's subject"])


# ----------------------------------------------------------------------------- C19
@check("C19")
def c19(ctx):
    expect_rejected(ctx, "Gen_Yaml", "MC_YamlLegacy", "ParamFiles!LegacyReader cannot read the printer's own output")
    g = tlc(ctx, "Gen_Yaml", workers=8)
    lines = tlc_json_lines(g["out"], "yaml")
    if not lines:
        raise core.ToolError("Gen_Yaml printed nothing")
    write_ndjson(ctx.path("yaml.ndjson"), lines)
    opwv(ctx, ["replay", "yaml", ctx.path("yaml.ndjson"), ctx.path("yaml.out")], env_extra={"VERIF_TMP": ctx.work})
    st = replay_results(ctx, ctx.path("yaml.out"), "C19")
    ctx.evaluations += st.get("evaluations", 0)
    # a second process reads the same variants in the opposite order (the meaning of a file is its own)
    opwv(ctx, ["replay", "yaml", ctx.path("yaml.ndjson"), ctx.path("yaml2.out")], env_extra={"VERIF_TMP": ctx.work, "VERIF_ORDER": "reverse"})
    st2 = replay_results(ctx, ctx.path("yaml2.out"), "C19")
    ctx.evaluations += st2.get("evaluations", 0)
    ctx.traces += len(lines)
    for ln in lines:
        ctx.nontrivial.add(json.dumps(ln, sort_keys=True))
    ctx.exhaustive = True
    return finish(ctx, rule="every variant of the documented format enumerated by TLC (Gen_Yaml: literal style of lengths x offset token "
                  "pattern (int / real radians / deg(int) / deg(real)) x 5|6 offsets x 5|6 signs x dof absent|top-level|nested x sixth "
                  "sign x layout), rendered with seeded values and parsed, compared with the expected meaning; to_yaml round trips of "
                  "named and random parameter sets (integral lengths, negative values, dof 5, zero J6 sign); malformed family + fuzzed "
                  "byte strings must return Err, never panic",
                  assumptions=["offsets compared to the printed precision (1e-4 degree)"])


# ----------------------------------------------------------------------------- C20
@check("C20")
def c20(ctx):
    g = tlc(ctx, "Gen_Urdf", workers=8)
    lines = tlc_json_lines(g["out"], "urdf")
    if not lines:
        raise core.ToolError("Gen_Urdf printed nothing")
    if ctx.quick:
        import random
        lines = random.Random(ctx.seed).sample(lines, 2000)
    write_ndjson(ctx.path("urdf.ndjson"), lines)
    opwv(ctx, ["replay", "urdf", ctx.path("urdf.ndjson"), ctx.path("urdf.out")])
    st = replay_results(ctx, ctx.path("urdf.out"), "C20")
    ctx.evaluations += st.get("evaluations", 0)
    ctx.traces += len(lines)
    for ln in lines:
        ctx.nontrivial.add(json.dumps(ln, sort_keys=True))
    ctx.exhaustive = not ctx.quick
    return finish(ctx, rule="layout lattice (c2 on z|x, b on joint 3, c3 on joint 5 (x|z) or joint 4 (x|y), c4 on x|z) x limit syntax "
                  "(radians, ${radians(deg)}, absent, mixed) x joint order (natural/reversed/shuffled) x nesting 0..2 x naming "
                  "(joint1, ${prefix}JOINT_1, joint_1, ${prefix}joint_a1, explicit list) x copies (single, identical duplicate, second "
                  "robot) enumerated by TLC with the symbolic origin vectors (Gen_Urdf: 12672 behaviours; quick = seeded sample of "
                  "2000); the harness fills in random parameter values and axis signs, renders the XML, extracts and compares; every "
                  "fourth behaviour also builds the solver and solves FK(q) for an in-limit q; fault variants must give Err",
                  assumptions=["name decorations are the documented forms only", "a layout with c3 on joint 4 needs a2 != 0 (the "
                               "single non-zero component of joint 4 is read as -a2)"])


# ----------------------------------------------------------------------------- C13
@check("C13")
def c13(ctx):
    consts = {"Grid": 7, "MaxTry": 2, "MaxBlocked": 1} if ctx.quick else {"Grid": 8, "MaxTry": 3, "MaxBlocked": 2}
    expect_rejected(ctx, "Gen_Rrt", "MC_RrtDeviation", "Rrt!EagerAdd (vertex added before the freeness test) violates TreesFree")
    consts["EagerAdd"] = "FALSE"
    g = tlc(ctx, "Gen_Rrt", constants=consts, workers=8, xmx="14g")
    lines = tlc_json_lines(g["out"], "rrt")
    if not lines:
        raise core.ToolError("Gen_Rrt printed nothing")
    write_ndjson(ctx.path("rrt.ndjson"), lines)
    opwv(ctx, ["replay", "rrt", ctx.path("rrt.ndjson"), ctx.path("rrt.out")])
    st = replay_results(ctx, ctx.path("rrt.out"), "C13")
    ctx.evaluations += st.get("evaluations", 0)
    ctx.traces += st.get("groups", 0)
    ctx.extra["runs_diverging_from_the_rrt_model"] = st.get("divergences", 0)
    for ln in lines:
        if ln["ok"]:
            ctx.nontrivial.add(json.dumps([ln["start"], ln["goal"], ln["len"], ln["blocked"], ln["samples"]]))
    opwv(ctx, ["record", "rrtplan", ctx.path("plan.trace")], timeout=3000)
    viols, done = trace_validate(ctx, "Trace_Rrt", ctx.path("plan.trace"))
    ev = read_ndjson(ctx.path("plan.trace"))
    for v in viols:
        e = ev[v["l"] - 1]
        for clause in v["clause"]:
            ctx.violation("%s:%s" % (clause, e["mode"]), "event #%d %s" % (v["l"], json.dumps(e)[:800]), e)
    ctx.evaluations += len(ev)
    ctx.extra["real_plans"] = len(ev)
    ctx.extra["real_paths_examined"] = sum(1 for e in ev if e["outcome"] == "path")
    ctx.extra["real_cancelled"] = sum(1 for e in ev if e["outcome"] == "err" and e.get("msg") == "Cancelled")
    paths = [e for e in ev if e["outcome"] == "path"]
    if paths:
        p0 = dict(paths[0])
        p0["nodes"] = p0["nodes"][:3]
        ctx.sample(p0)
    ctx.exhaustive = True
    return finish(ctx, rule="every behaviour of the Rrt model on a 1-D grid 0..Grid (start in {1,2}, goal in {Grid-2,Grid-1}, step 1|2, "
                  "up to MaxBlocked blocked cells, MaxTry tries, every sample sequence, cancellation never / before / while drawing "
                  "sample k) is model checked (PathOK, CancelOK, TreesFree) and every complete behaviour is replayed into the real "
                  "dual_rrt_connect with scripted closures: the sequence of freeness queries and the assembled path must be one the "
                  "model allows; plus real plan_rrt runs on robots with shape judged by Trace_Rrt; non-trivial = sample scripts that "
                  "yield a path",
                  assumptions=["nearest-neighbour ties are nondeterministic in the model (kd-tree order)",
                               "the real planner's thread_rng is sampled; a run with zero successful real plans is reported in the evidence"])


# ----------------------------------------------------------------------------- C12
@check("C12")
def c12(ctx):
    # the race / algorithm model: every schedule of 2 strategies x every oracle outcome
    tlc(ctx, "MC_Stroke", workers=8, xmx="12g")
    # non-vacuity: in the named deviation (stop flag raised before the strategy's own collision check) TLC must find
    # the schedule in which a colliding strategy cancels the only viable one
    expect_rejected(ctx, "MC_Stroke", "MC_StrokeDeviation", "Stroke!RaiseEarly violates RaceOK")
    opwv(ctx, ["record", "stroke", ctx.path("stroke.trace")], timeout=3300)
    viols, done = trace_validate(ctx, "Trace_Stroke", ctx.path("stroke.trace"))
    ev = read_ndjson(ctx.path("stroke.trace"))
    # the plan header preceding each event gives the scenario class for the signature
    hdr = None
    hdr_of = []
    for e in ev:
        if e["ev"] == "plan":
            hdr = e
        hdr_of.append(hdr)
    for v in viols:
        e = ev[v["l"] - 1]
        h = hdr_of[v["l"] - 1] or {}
        for clause in v["clause"]:
            cls = e.get("obstacle") or h.get("obstacle", "?")
            ctx.violation("%s:%s" % (clause, cls), "event #%d %s ; plan %s" % (v["l"], json.dumps(e)[:500], json.dumps(h)[:300]),
                          {"event": e, "plan": h})
    plans = [e for e in ev if e["ev"] == "plan"]
    ok = [e for e in plans if e["outcome"] == "ok"]
    ctx.evaluations += len(ev)
    for e in ok:
        ctx.nontrivial.add((e["case"], e["pool"], e["rep"]))
    ctx.extra["plans"] = len(plans)
    ctx.extra["successful_plans_examined"] = len(ok)
    ctx.extra["waypoints_judged"] = sum(1 for e in ev if e["ev"] == "wp")
    ctx.extra["window_kinds"] = {k: sum(e["windows"][k] for e in plans) for k in ("direct", "bisect", "rrt")}
    if ok:
        ctx.sample(ok[0])
        ctx.sample(next(e for e in ev if e["ev"] == "wp"))
    if not ok:
        raise core.ToolError("no plan succeeded: the conditional property was not exercised (no evidence)")
    return finish(ctx, rule="(a) MC_Stroke: every interleaving of 2 strategies (onboard, 3 windows, end check, collision check, publish) x "
                  "every oracle outcome: RaceOK, GrammarOK, OrderOK; (b) real Cartesian::plan on an irb2400 cell: straight strokes with "
                  "free / blocking / grazing obstacle, 2..4 stroke poses, step sizes, cost limits, recursion depths, include on/off, rayon "
                  "pools and repeats; every waypoint of every returned plan is one event judged by the grammar automaton and the "
                  "per-waypoint clauses of Trace_Stroke; non-trivial = successful plans",
                  assumptions=["whether planning succeeds is not demanded (conditional property); a run without any successful plan is a "
                               "tool error, not a pass", "cost and schedule clauses apply to plans without RRT-closed windows"])
