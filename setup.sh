#!/bin/sh
# Offline build of the verification framework: harness (cargo, path dependency on /repo) + SANY on every spec.
set -e
cd "$(dirname "$0")"
export CARGO_NET_OFFLINE=true
(cd harness && cargo build --offline -q)
for f in spec/*.tla; do
  (cd spec && tla-sany "$(basename "$f")" > /tmp/sany.$$ 2>&1) || { cat /tmp/sany.$$; rm -f /tmp/sany.$$; echo "SANY failed on $f"; exit 1; }
done
rm -f /tmp/sany.$$
echo "setup ok"
