#!/usr/bin/env python3
"""Regenerates /verif/MANIFEST.json from the table below (kept valid against the schema at all times)."""
import json
import os
import subprocess
import sys

V = os.path.dirname(os.path.dirname(os.path.abspath(__file__)))
sys.path.insert(0, V)
from vlib import props  # noqa

# id -> (technique, level text, level note, design ref)
T = {
 "C07": ("TLC exhaustive lattice model (MC_Limits) + TLC-generated exact verdicts replayed into the code (Gen_Limits) + TLC-judged trace of random-real calls (Trace_Limits)",
         "The arc-membership definition and the code's centre/tolerance structure are proved equal by TLC for every (from,to,angle) on the lattice; every lattice verdict is replayed into all three constructors, compliant() and filter(); random real limits are judged event by event by the TLA+ OnArc operator.",
         "Trusts TLC, the harness' AU<->radian conversion, and that behaviour between lattice points is decided by the nearest ends (piecewise structure of the code). Exact float arc ends are don't-care except (-x,x)/(0,x) ranges.", "4/C07"),
 "C18": ("TLC model of the sampler on the lattice (MC_Sampler) + trace validation of real random_angles draws by TLC (Trace_Limits)",
         "Every lattice offset of the specified sampler is on the arc (model); each real draw is one trace event whose arc membership TLC evaluates, for every lattice (from,to) in +-2pi and random sets.",
         "thread_rng outcomes are sampled (several draws per constraint set), not enumerated.", "4/C18"),
 "C03": ("TLC model of the OPW link chain, one action per joint, exact integer poses (Gen_Chain) replayed into forward/forward_with_joint_poses + TLC-judged trace of random robots (Trace_Chain)",
         "TLC builds every chain of lattice angles with exact rational link poses and checks proper rotations and link offsets on the model; each chain is replayed into both FK functions under several sign/offset/whole-turn conventions (1e-9), plus prefix-dependence probes; random real robots are judged from oracle facts by the trace spec.",
         "Lattice agreement pins the closed form because every FK entry is multilinear in (sin q_i, cos q_i); the float oracle used off-lattice is itself replayed against the exact model in the same run.", "4/C03"),
 "C09": ("TLC model of wrapper stacks, one Wrap action per layer with exact composed poses (Gen_Stack, MC_Stack) replayed around a recording leaf (delegation matrix) and around the real solver",
         "Every stack up to the depth bound over non-commuting lattice isometries is enumerated by TLC with the exact forward pose, link poses and expected leaf entry; the harness replays all entry points and compares which leaf method is reached, with which pose/previous/J6, and maps real answers back through an independent stack forward.",
         "5-DOF clauses only for axial tools/frames; isometries are the six lattice choices of Gen_Stack (translation, quarter turn, generic rotations).", "4/C09"),
 "C01": ("trace validation: TLC evaluates the Solver contract (spec/Solver.tla) on every recorded inverse call of a TLC-enumerated scenario lattice",
         "Scenario classes (entry x DOF x pose class x previous class x limit class, all 64 sign patterns, geometry and offset classes, wrapper stacks) are enumerated by TLC; every returned joint vector of every call is judged by the TLA+ clause Sound against an independent forward model.",
         "The 1 um / 1 urad facts are computed in f64 by the harness oracle (validated against the exact TLA+ chain in C03) and consumed by the spec as integers (nm, nrad).", "4/C01"),
 "C02": ("trace validation of plain inverse on oracle-certified non-singular configurations: TLA+ clause Complete (origin present, wrist twin, no duplicates, closed answer set)",
         "For every scenario instance with singularity margins the originating configuration, the geometric wrist twin of every answer, duplicate freedom and equal answer-set sizes for the poses of all answers are demanded by TLC; exact lattice configurations are covered through Gen_Chain poses in C03/C15.",
         "Margins (|sin q5|, |sin elbow| > 0.05, wrist centre 5 cm off the J1 axis) are computed by the oracle.", "4/C02"),
 "C04": ("trace validation with state: TLA+ clause Ordered on every continuation call + histories (trace spec variable `last` links each call's previous to the preceding first answer)",
         "Nearest representative, non-decreasing documented cost (weights k/16 recomputed exactly by TLC), superset of plain inverse and previous-first are evaluated on every event; dense trajectories are followed and any branch switch or broken history is flagged.",
         "Previous-first is demanded for weight 0 only (the documented cost); prev within +-2pi.", "4/C04"),
 "C06": ("trace validation: TLA+ clause FiveDofOk on every 5-DOF call (both 5-DOF entry points on 6-DOF robots and all four entry points on robots declared 5-DOF)",
         "J6 bitwise equal to the caller's value, originating J1..J5 present, tool point and tool axis within 1 um / 1 urad of the requested ones (oracle), and a declared 5-DOF robot answering plain inverse with J6 = 0.",
         "Behind wrappers only axial tools are used for the 5-DOF clauses (the statement's presupposition).", "4/C06"),
 "C08": ("trace validation with a twin robot: TLC recomputes limit compliance (OnArc) of every unconstrained answer and demands constrained = compliant subset",
         "Each constrained call is paired with the same call on a twin without limits behind the same wrapper stack; TLA+ clause Constrained demands every answer inside the limits, no compliant solution dropped and (away from wrist singularities) nothing invented.",
         "Angles closer than 3e-4 degree to a limit are don't-care.", "4/C08"),
 "C05": ("TLC-generated scenario lattice with expected verdicts (Gen_Singular) replayed into kinematic_singularity + trace validation of detection against the J4/J6 axis angle of the independent chain and of J4/J6 continuity (Singular!Continuity)",
         "Every multiple of pi, either side, depths inside/outside the band, both J5 signs, offset classes and wrappers are enumerated with TLC's expected verdict; the oracle's geometric axis angle is a second, independent judge; continuity at exactly singular poses is a TLA+ clause evaluated on each recorded inverse_continuing call.",
         "Continuity is demanded only under the property's own precondition (oracle arm sensitivity < 0.25 urad, no second singular branch); 'move by the same amount' only for equal J4/J6 sign corrections.", "4/C05"),
 "C16": ("TLC model of coupling stacks on the lattice (Gen_Pgram, one Couple action per layer, exact reduced vector and link poses) replayed into Parallelogram + Solver trace events through random couplings",
         "Every lattice-exact coupling (30 joint pairs x 6 scalings) is generated by TLC with the exact inner link poses at the reduced vector; forward, link poses and the round trip of all four inverse entry points are replayed; stacked couplings compose (depth 2 in the thorough tier); random real scalings are judged by the TLA+ clause Coupled.",
         "Exactness on the lattice needs driven angles that are multiples of 90 degrees; other driven angles are covered by the random-real trace events.", "4/C16"),
 "C15": ("TLC-computed exact geometric Jacobian columns on the lattice (Gen_Jacobian, on top of the Gen_Chain model) replayed into Jacobian::new + trace validation of random robots/stacks (Trace_Jacobian)",
         "Axis x lever and axis of every joint are computed exactly by TLC from the link poses of the chain model for all lattice chains with up to three generic joints; the code's finite-difference matrix is compared column by column for three step sizes; torques, velocities and the isometry/vector entry points are judged by the trace spec from oracle facts.",
         "The matrix field is private and is observed through torques_from_vector(unit vectors); tolerance 20*eps*(1+reach).", "4/C15"),
 "C17": ("TLC model of point triples under exact lattice rigid motions (Gen_Frame3: actions ChooseRot, ChooseShift; invariant Rigid) replayed into Frame::frame with perturbation families + trace validation of forward_transformed (Trace_Frame)",
         "For every triple x motion TLC prints the exact images and the generating motion; the constructed frame must equal it and map every point to its image; collinear / coincident sources, exactly collinear targets, +3 mm / +8 mm congruence perturbations and mirrored targets must give the stated outcome; forward_transformed is judged by the trace spec from oracle facts.",
         "Tolerance 1e-9 (1e-6 for the nearly collinear triple).", "4/C17"),
 "C10": ("TLC model checking of all schedules of the parallel task evaluation (MC_Collision) + TLC-generated safety configurations with the pair sets that must be evaluated, compared with hook-H3 task lists (Gen_Collision) + trace validation of verdicts from brute-force distances (Trace_Collision)",
         "The verdict class is shown schedule independent on the model; the enumerated task pairs of collision_details / collides / near are compared with Collision!MustCheck for every tool/base/environment/table configuration; on constructive scenes every report (all / first / nocheck mode, rayon pools 1..16) is judged by TLC's Expected set computed from the logged distance of every body pair.",
         "Brute force uses parry's distance/intersection on the placed meshes; distances within 60 um of the threshold are don't-care; real rayon schedules are sampled (pools x repeats).", "4/C10"),
 "C14": ("hook-H3 task lists of the 12 candidates against Collision!MustCheck (pairs with a moved member) for TLC-generated configurations + trace validation of offered offsets (Trace_Collision!JudgeOffsets)",
         "For every configuration and every moved joint the enumerated pairs must cover all non-exempt pairs with a moved member; on scenes laid out to collide at one candidate, TLC recomputes limit compliance and demands offered = legal and free by the full check, under several rayon pools.",
         "The reference for 'free' is the library's own full collides() as the statement says; its correctness is C10's subject.", "4/C14"),
 "C11": ("trace validation: TLA+ action FilterFree evaluated by TLC on every recorded call of a robot with shape together with the same call on its underlying stack",
         "Each event holds the underlying stack's answers, the collision verdict of each and the wrapper's answers; TLC demands exact equality with the ordered non-colliding sub-sequence; forward, link poses, limits, singularity and positioned meshes are compared with the independently built Tool(Base(OPW+limits)) model.",
         "collides() itself is judged by C10; environments are random boxes, geometry irb2400.", "4/C11"),
 "C19": ("TLC-enumerated variant lattice of the documented YAML format with expected meaning (ParamFiles, Gen_Yaml) rendered and parsed + to_yaml round trips + malformed/fuzzed files",
         "Printer token classes, documented token classes and reader obligations are a TLA+ model (PrinterCovered); all 2160 syntactic variants are rendered and must parse to the expected geometry, offsets, signs and dof; the library's own output must read back; structurally broken and fuzzed files must yield Err, never a panic.",
         "Concrete numbers inside each variant are seeded random; offsets compared to the printed precision.", "4/C19"),
 "C20": ("TLC-enumerated layout and syntax lattice of robot descriptions with symbolic origin vectors (Gen_Urdf, invariant WellFormed) rendered to XML and replayed into from_urdf; fault variants",
         "The mapping from OPW parameters to joint origin components is the spec's; TLC enumerates every supported layout x limit syntax x joint order x nesting x naming x duplicates; the harness fills in values, extracts and compares parameters, signs and limits, checks the three views and that the resulting solver finds in-limit configurations (joints without limits are unconstrained); broken descriptions must return Err.",
         "Name decorations restricted to the documented forms; quick tier replays a seeded sample of 2000 of the 12672 behaviours, thorough all.", "4/C20"),
 "C13": ("TLC model checking of the dual-tree RRT-connect algorithm (spec/Rrt.tla: LoopHead, Sample+extend, Connect, swap, path assembly, cancellation) + replay of every complete model behaviour into the real dual_rrt_connect with scripted closures (hook H2) + trace validation of real plan_rrt runs (Trace_Rrt)",
         "PathOK, CancelOK and TreesFree hold in every reachable state of the bounded model (all sample sequences, blocked cells, cancellation points); for every sample script the real implementation's sequence of freeness queries and assembled path must be a behaviour of the model; real planner runs on robots with shape are judged node by node (collision verdict, step <= 3 steps, limits by TLC's OnArc, exact endpoints, cancellation).",
         "1-D integer world makes the extend arithmetic exact in f64; kd-tree tie order is nondeterministic in the model; thread_rng of the real planner is sampled.", "4/C13"),
 "C12": ("TLC model checking of the strategy race and probing algorithm (spec/Stroke.tla, MC_Stroke: all interleavings x all oracle outcomes) + trace validation of real plans with a grammar automaton and per-waypoint clauses (Trace_Stroke), hook H4 window kinds",
         "RaceOK (the stop flag never turns success into failure; only viable strategies are returned), GrammarOK and OrderOK hold in all 900k states of the bounded model; every waypoint of every real plan (free / grazing / blocking obstacle, include on/off, cost limits, depths, rayon pools, repeats) is one event: start configuration, flags grammar, collision verdict, limits by OnArc, originals reproduced by the independent forward model, interpolated points on the segment, transition cost, schedule independence of success.",
         "Conditional property: failing to plan is not a violation, a run with no successful plan is a tool error; RRT randomness and rayon schedules of the real planner are sampled.", "4/C12"),
}

REASON_TODO = "check not built yet in this round (planned, see DESIGN.md section 9); not claimed until it runs"


def main():
    ids = [json.loads(l)["id"] for l in open(os.path.join(V, "properties.jsonl"))]
    checks = []
    na = []
    for pid in ids:
        if pid in props.CHECKS and pid in T:
            tech, text, note, ref = T[pid]
            checks.append({
                "property_id": pid,
                "quick_cmd": "./check %s --tier quick" % pid,
                "thorough_cmd": "./check %s --tier thorough" % pid,
                "evidence_file": "evidence/%s.json" % pid,
                "replay_cmd_template": "./check %s --replay {path}" % pid,
                "engine": "tla-opwv",
                "level_claimed": {"category": "model_checking", "text": text, "design_ref": "DESIGN.md section " + ref},
                "level_note": note,
                "technique": tech,
            })
        else:
            na.append({"property_id": pid, "reason": REASON_TODO})
    hooks = subprocess.run(["git", "-C", "/repo", "log", "--format=%h %s", "--grep=^verif hook"],
                           stdout=subprocess.PIPE, text=True).stdout.strip().splitlines()
    m = {
        "version": 1,
        "setup_cmd": "./setup.sh",
        "hooks": {
            "guard": "--cfg opw_verif",
            "enable": "harness/.cargo/config.toml passes rustflags --cfg opw_verif (and --check-cfg cfg(opw_verif)) to every crate of the harness build, including the path dependency /repo",
            "baseline_off_cmd": "cd /repo && cargo test --workspace --no-fail-fast --offline",
            "source_commits": [h.split()[0] for h in hooks],
            "add_only": True,
        },
        "engines": [{
            "name": "tla-opwv", "path": "spec/ + harness/ + check",
            "serves_properties": [c["property_id"] for c in checks],
            "kind_free_text": "explicit TLA+ specification (spec/*.tla) checked by TLC; bound to the Rust code by (B1) replay of TLC-generated behaviours with exact expected values, (B2) validation of recorded traces by TLA+ trace specs, (B3) trace validation with facts from an independent float reference",
        }],
        "checks": checks,
        "not_applicable": na,
        "notes": "All checks rebuild the harness (cargo build --offline, path dependency on /repo) before running. VERIF_SEED seeds every random choice of the harness.",
    }
    json.dump(m, open(os.path.join(V, "MANIFEST.json"), "w"), indent=1)
    print("checks:", [c["property_id"] for c in checks], "not_applicable:", len(na))


main()
