#!/usr/bin/env python3
"""tools/parallel_apply.py <outdir> <jobs> <diff> [<diff> ...]
For every diff: a scratch worktree of /repo with the diff applied + a scratch copy of /verif pointed at it (VERIF_REPO),
run all quick checks there (tools/runall.sh quick 1), collect the per-check lines. Several diffs run in parallel.
Used for the benign-change campaign (no check may raise an alarm) - /repo itself is never touched."""
import json, os, shutil, subprocess, sys
from concurrent.futures import ThreadPoolExecutor

out, jobs, diffs = sys.argv[1], int(sys.argv[2]), sys.argv[3:]
os.makedirs(out, exist_ok=True)


def run(i_diff):
    i, diff = i_diff
    name = os.path.basename(os.path.dirname(os.path.dirname(diff))) + "-" + os.path.splitext(os.path.basename(diff))[0]
    r = os.path.join(out, "r-" + name)
    v = os.path.join(out, "v-" + name)
    res = {"diff": diff, "name": name}
    try:
        subprocess.run(["git", "-C", "/repo", "worktree", "add", "--detach", r, "HEAD"], stdout=subprocess.DEVNULL, stderr=subprocess.DEVNULL, check=True)
        a = subprocess.run(["git", "-C", r, "apply", diff], stdout=subprocess.PIPE, stderr=subprocess.STDOUT, text=True)
        if a.returncode != 0:
            res["error"] = "patch does not apply: " + a.stdout[-300:]
            return res
        shutil.copytree("/verif", v, ignore=shutil.ignore_patterns(".git", ".work", "seeded", "evidence", "incremental"), symlinks=True)
        os.makedirs(os.path.join(v, "evidence"), exist_ok=True)
        env = dict(os.environ, VERIF_REPO=r)
        p = subprocess.run(["tools/runall.sh", "quick", "1"], cwd=v, env=env, stdout=subprocess.PIPE, stderr=subprocess.STDOUT, text=True)
        lines = [l for l in p.stdout.splitlines() if l.startswith("C")]
        res["lines"] = lines
        res["alarms"] = [l for l in lines if " rc=1 " in l]
        res["tool_errors"] = [l for l in lines if " rc=2 " in l]
        if res["alarms"] or res["tool_errors"]:
            # keep the replay files for inspection
            keep = os.path.join(out, "replay-" + name)
            rp = os.path.join(v, "evidence", "replay")
            if os.path.isdir(rp):
                shutil.copytree(rp, keep, dirs_exist_ok=True)
    finally:
        subprocess.run(["git", "-C", "/repo", "worktree", "remove", "--force", r], stdout=subprocess.DEVNULL, stderr=subprocess.DEVNULL)
        shutil.rmtree(v, ignore_errors=True)
    print(name, "alarms:", res.get("alarms"), "tool errors:", res.get("tool_errors"), res.get("error", ""), flush=True)
    return res


with ThreadPoolExecutor(max_workers=jobs) as ex:
    results = list(ex.map(run, enumerate(diffs)))
json.dump(results, open(os.path.join(out, "results.json"), "w"), indent=1)
