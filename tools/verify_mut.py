#!/usr/bin/env python3
"""tools/verify_mut.py <worktree> <N> <seeded-id>
Confirms a sub-agent's mutation N in its scratch worktree: patch applies, crate compiles, the 66 tests pass with it,
demoN fails with it and passes without it. On success copies patch/demo/meta to /verif/seeded/<seeded-id>/."""
import json, os, shutil, subprocess, sys

wt, n, sid = sys.argv[1], sys.argv[2], sys.argv[3]
out = os.path.join(wt, "out")
FEAT = ["--offline", "--no-default-features", "--features", "allow_filesystem,collisions,stroke_planning"]
env = dict(os.environ, CARGO_TARGET_DIR=os.path.join(wt, "target"))


def run(cmd, **kw):
    return subprocess.run(cmd, cwd=wt, env=env, stdout=subprocess.PIPE, stderr=subprocess.STDOUT, text=True, **kw)


def clean():
    run(["git", "checkout", "--", "."])
    for f in ("tests/demo1.rs", "tests/demo2.rs", "tests/demo3.rs", "tests/demo4.rs"):
        try:
            os.remove(os.path.join(wt, f))
        except FileNotFoundError:
            pass


clean()
diff = os.path.join(out, "mut%s.diff" % n)
demo = os.path.join(out, "demo%s.rs" % n)
meta = os.path.join(out, "meta%s.json" % n)
for f in (diff, demo, meta):
    if not os.path.exists(f):
        print("MISSING", f); sys.exit(1)
os.makedirs(os.path.join(wt, "tests"), exist_ok=True)
shutil.copy(demo, os.path.join(wt, "tests", "demo%s.rs" % n))
r = run(["cargo", "test"] + FEAT + ["--test", "demo%s" % n])
base_ok = r.returncode == 0
r = run(["git", "apply", diff])
if r.returncode != 0:
    print("PATCH DOES NOT APPLY", r.stdout[-500:]); clean(); sys.exit(1)
r = run(["cargo", "test"] + FEAT + ["--lib"])
lib_ok = r.returncode == 0 and "66 passed" in r.stdout
r = run(["cargo", "test"] + FEAT + ["--test", "demo%s" % n])
mut_fails = r.returncode != 0
clean()
print("demo passes on clean tree:", base_ok, "| 66 tests pass with mutation:", lib_ok, "| demo fails with mutation:", mut_fails)
if base_ok and lib_ok and mut_fails:
    d = os.path.join("/verif/seeded", sid)
    os.makedirs(d, exist_ok=True)
    shutil.copy(diff, os.path.join(d, "patch.diff"))
    shutil.copy(demo, os.path.join(d, "demo.rs"))
    m = json.load(open(meta))
    m["confirmed"] = {"demo_passes_without": True, "demo_fails_with": True, "tests_66_pass_with": True,
                      "ran": "cargo test --offline --no-default-features --features allow_filesystem,collisions,stroke_planning (--lib / --test demo) in a scratch worktree"}
    json.dump(m, open(os.path.join(d, "meta.json"), "w"), indent=1)
    print("KEPT", d)
    sys.exit(0)
sys.exit(1)
