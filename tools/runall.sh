#!/bin/sh
# tools/runall.sh [quick|thorough] [seed]  -- run every registered check, one line per property
cd "$(dirname "$0")/.."
TIER=${1:-quick}; SEED=${2:-1}
for p in $(python3 -c "import json;print(' '.join(c['property_id'] for c in json.load(open('MANIFEST.json'))['checks']))"); do
  s=$(date +%s)
  out=$(VERIF_SEED=$SEED ./check $p --tier $TIER 2>/dev/null); rc=$?
  e=$(date +%s)
  echo "$p rc=$rc $((e-s))s $(echo "$out" | grep -E '^(VIOLATION|TOOL)' | head -1) $(echo "$out" | grep -c '^KNOWN-FINDING') known"
done
