#!/usr/bin/env python3
"""tools/seeded.py [id ...]  -- for every seeded change: apply its patch to /repo, run the quick check(s) of its property,
revert, and record the outcome in seeded/RESULTS.md (and meta.json: detected_by)."""
import json, os, subprocess, sys, time

V = "/verif"
ids = sys.argv[1:] or sorted(d for d in os.listdir(os.path.join(V, "seeded")) if os.path.isdir(os.path.join(V, "seeded", d)))
rows = []
for sid in ids:
    d = os.path.join(V, "seeded", sid)
    meta = json.load(open(os.path.join(d, "meta.json")))
    props = meta.get("check_with") or [meta["property"]]
    assert subprocess.run(["git", "-C", "/repo", "status", "--porcelain", "--untracked-files=no"], stdout=subprocess.PIPE, text=True).stdout.strip() == "", "/repo not clean"
    r = subprocess.run(["git", "-C", "/repo", "apply", os.path.join(d, "patch.diff")], stdout=subprocess.PIPE, stderr=subprocess.STDOUT, text=True)
    if r.returncode != 0:
        rows.append((sid, meta["property"], "PATCH-DOES-NOT-APPLY", "", 0)); continue
    try:
        res = []
        for p in props:
            t = time.time()
            c = subprocess.run(["./check", p], cwd=V, stdout=subprocess.PIPE, stderr=subprocess.PIPE, text=True)
            sigs = [l.strip()[len("signature: "):].split("  (")[0] for l in c.stderr.splitlines() if l.strip().startswith("signature:")]
            res.append((p, c.returncode, sigs[:3], round(time.time() - t)))
    finally:
        subprocess.run(["git", "-C", "/repo", "checkout", "--", "."])
    det = [p for p, rc, _, _ in res if rc == 1]
    meta["detected_by"] = det
    meta["check_results"] = [{"check": p, "exit": rc, "signatures": s, "wall_s": w} for p, rc, s, w in res]
    json.dump(meta, open(os.path.join(d, "meta.json"), "w"), indent=1)
    rows.append((sid, meta["property"], "DETECTED" if det else "MISSED", "; ".join("%s exit %d %s" % (p, rc, s[:1]) for p, rc, s, _ in res), sum(w for *_, w in res)))
    print(rows[-1], flush=True)
# merge into RESULTS.md
path = os.path.join(V, "seeded", "RESULTS.md")
old = {}
if os.path.exists(path):
    for l in open(path):
        if l.startswith("| ") and not l.startswith("| id") and not l.startswith("|---"):
            c = [x.strip() for x in l.strip().strip("|").split("|")]
            old[c[0]] = c
for sid, prop, verdict, detail, w in rows:
    meta = json.load(open(os.path.join(V, "seeded", sid, "meta.json")))
    old[sid] = [sid, prop, verdict, meta.get("what", "")[:140].replace("|", "/"), detail.replace("|", "/")[:200]]
with open(path, "w") as f:
    f.write("# Seeded changes and the checks that catch them\n\n| id | property | quick check | change | detail |\n|---|---|---|---|---|\n")
    for k in sorted(old):
        f.write("| " + " | ".join(old[k]) + " |\n")
