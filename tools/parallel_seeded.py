#!/usr/bin/env python3
"""tools/parallel_seeded.py <jobs> <seeded-id> [...]
Like tools/seeded.py, but on scratch copies (worktree of /repo with the patch + copy of /verif with VERIF_REPO), several
in parallel; /repo itself is not touched.  Prints one verdict line per id; does not write RESULTS.md (seeded.py does)."""
import json, os, shutil, subprocess, sys, tempfile
from concurrent.futures import ThreadPoolExecutor

jobs, ids = int(sys.argv[1]), sys.argv[2:]
root = tempfile.mkdtemp(prefix="pseed-", dir="/tmp")


def run(sid):
    d = os.path.join("/verif/seeded", sid)
    meta = json.load(open(os.path.join(d, "meta.json")))
    props = meta.get("check_with") or [meta["property"]]
    r, v = os.path.join(root, "r-" + sid), os.path.join(root, "v-" + sid)
    out = []
    try:
        subprocess.run(["git", "-C", "/repo", "worktree", "add", "--detach", r, "HEAD"], stdout=subprocess.DEVNULL, stderr=subprocess.DEVNULL, check=True)
        a = subprocess.run(["git", "-C", r, "apply", os.path.join(d, "patch.diff")], stdout=subprocess.PIPE, stderr=subprocess.STDOUT, text=True)
        if a.returncode != 0:
            return sid, "PATCH-DOES-NOT-APPLY", a.stdout[-200:]
        shutil.copytree("/verif", v, ignore=shutil.ignore_patterns(".git", ".work", "seeded", "evidence", "incremental"), symlinks=True)
        os.makedirs(os.path.join(v, "evidence"), exist_ok=True)
        for p in props:
            c = subprocess.run(["./check", p], cwd=v, env=dict(os.environ, VERIF_REPO=r), stdout=subprocess.PIPE, stderr=subprocess.PIPE, text=True)
            sigs = [l.strip()[len("signature: "):].split("  (")[0] for l in c.stderr.splitlines() if l.strip().startswith("signature:")]
            out.append((p, c.returncode, sigs[:3]))
            if c.returncode == 2:
                out.append((c.stdout[-300:], c.stderr[-600:]))
    finally:
        subprocess.run(["git", "-C", "/repo", "worktree", "remove", "--force", r], stdout=subprocess.DEVNULL, stderr=subprocess.DEVNULL)
        shutil.rmtree(v, ignore_errors=True)
    verdict = "DETECTED" if any(len(x) == 3 and x[1] == 1 for x in out) else "MISSED"
    print(sid, verdict, out, flush=True)
    return sid, verdict, out


with ThreadPoolExecutor(max_workers=jobs) as ex:
    res = list(ex.map(run, ids))
shutil.rmtree(root, ignore_errors=True)
subprocess.run(["git", "-C", "/repo", "worktree", "prune"])
print("missed:", [s for s, v, _ in res if v != "DETECTED"])
