#!/usr/bin/env python3
"""tools/muttest.py <Cxx[,Cyy]> <repo-relative-file> <old> <new>  -- apply a textual mutation to /repo, run the
quick checks, revert. Prints the verdict lines. (Development aid for the mutation campaign.)"""
import subprocess
import sys

pids, f, old, new = sys.argv[1].split(","), sys.argv[2], sys.argv[3], sys.argv[4]
p = "/repo/" + f
s = open(p).read()
if s.count(old) != 1:
    print("pattern occurs %d times" % s.count(old))
    sys.exit(2)
open(p, "w").write(s.replace(old, new))
try:
    for pid in pids:
        r = subprocess.run(["./check", pid], cwd="/verif", stdout=subprocess.PIPE, stderr=subprocess.PIPE, text=True)
        print(pid, "exit", r.returncode)
        print("\n".join(l for l in (r.stdout + r.stderr).splitlines()
                        if l.startswith(("VIOLATION", "OK", "KNOWN", "TOOL", "  signature"))))
finally:
    subprocess.run(["git", "-C", "/repo", "checkout", "--", f])
