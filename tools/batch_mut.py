#!/usr/bin/env python3
"""tools/batch_mut.py <root> <tag> <Cxx> [...]  -- for each property dir <root>/<Cxx>/out: verify mut1..mutN (verify_mut.py),
keep confirmed ones as seeded/<Cxx>-<tag>m<N>, run the quick check against each (seeded.py), print a compact summary."""
import glob, os, subprocess, sys
root, tag, pids = sys.argv[1], sys.argv[2], sys.argv[3:]
kept = []
for pid in pids:
    for d in sorted(glob.glob(os.path.join(root, pid, "out", "mut*.diff"))):
        n = os.path.basename(d)[3:-5]
        sid = "%s-%sm%s" % (pid, tag, n)
        r = subprocess.run(["/verif/tools/verify_mut.py", os.path.join(root, pid), n, sid], stdout=subprocess.PIPE, stderr=subprocess.STDOUT, text=True)
        last = r.stdout.strip().splitlines()[-1] if r.stdout.strip() else "?"
        if r.returncode == 0:
            kept.append(sid)
        else:
            print("NOT-KEPT", sid, last[:200])
print("kept", len(kept))
if kept:
    r = subprocess.run(["/verif/tools/seeded.py"] + kept, stdout=subprocess.PIPE, stderr=subprocess.STDOUT, text=True)
    det = [l for l in r.stdout.splitlines() if "'DETECTED'" in l]
    mis = [l for l in r.stdout.splitlines() if "'MISSED'" in l or "PATCH" in l]
    print("detected", len(det), "missed", len(mis))
    for l in mis:
        print(l[:260])
    for l in det:
        print("  ok", l[1:90])
