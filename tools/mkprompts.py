#!/usr/bin/env python3
"""tools/mkprompts.py <root> <n>  -- scratch worktrees of /repo under <root>/<Cxx> (outside /repo and /verif) with
out/PROPERTY.json, and one prompt file <root>/PROMPT-<Cxx>.txt per property for a sub-agent that sees nothing of /verif.
The prompt lists the ideas already stored under seeded/ so that new changes differ from them."""
import json, os, glob, subprocess, sys
root, n = sys.argv[1], sys.argv[2]
style = sys.argv[3] if len(sys.argv) > 3 else "mixed"
STYLES = {
 "mixed": "Make them the kind of mistake a maintainer could plausibly make in a refactoring, an optimisation or a feature addition, and make them DIFFERENT IN KIND from each other: for example one plain slip (wrong sign, swapped arguments, off-by-one, dropped branch, wrong constant or unit, wrong comparison), one that needs a particular combination of features, configuration or call order to show, and one that is confined to some region of the input space (a class of geometries, conventions, ranges, sizes) that is ordinary but easy to overlook.",
 "clauses": "Read the statement and the quantifier as a LIST of separate claims (every sentence, every sub-clause after a comma or 'and', every item of the quantifier, including the ones mentioned last or in parentheses). Choose THREE DIFFERENT claims, preferring the least prominent ones and those that none of the earlier ideas below touches, and for each make one realistic change (the kind a maintainer could make in a refactoring, an optimisation, a bug fix elsewhere or a feature addition) that breaks exactly that claim while the more prominent behaviour stays intact. State in metaN.json which claim (quote it) the change breaks.",
 "numeric": "Make them changes of the NUMERIC kind, each of a different sort: (1) a tolerance, threshold, epsilon, band, rounding or unit conversion that is changed, dropped, or applied at a different place or to a different quantity than before (for example an absolute tolerance that becomes relative, radians compared with degrees, a check done before instead of after a normalisation); (2) a change to angle normalisation / modular arithmetic / range reduction / sign handling (which representative of an angle is returned or compared, what happens at +-pi, at 0, at multiples of 2*pi, with negative values); (3) a change of precision or of the order of floating-point operations (f32 instead of f64 somewhere, an algebraically equivalent but numerically worse formula, an accumulated instead of a direct computation) that stays harmless for ordinary inputs but exceeds the accuracy or the exactness the property states for some inputs of its quantifier. Each must be visible to a user who checks the property at the accuracy it states - not merely a difference in the last bits.",
 "stateful": "Make them changes whose effect depends on HISTORY, STATE, ORDER or CONCURRENCY rather than on the arguments of a single call alone, each of a different sort: (1) something remembered between calls that should not be, or that is keyed too coarsely (a cache or memo table, a lazily initialised static, a thread-local, a field updated through interior mutability, a 'same as last time' shortcut), so that an answer depends on which calls came before, on which other robot / constraints / body object was used before, or on which thread runs the call; (2) a change in how work is split, ordered, short-circuited or merged (parallel iteration, early exit, find-any versus find-first, sort stability, de-duplication, iteration order of a hash map, reuse of a buffer), so that a result depends on the pool size, the scheduling or the order of the inputs; (3) a change that makes an object's behaviour depend on how or when it was configured (constructor versus later update of a public field or call of an update method, a value captured at construction time that should be read at call time or the reverse, a clone that shares what it should copy). The demonstration may need several calls, objects or threads; it must still fail reliably.",
 "surface": "Make them the kind of mistake a maintainer could plausibly make, and spread them over the API SURFACE that the property reaches: (1) one in a less used way of doing the same thing (another constructor, another entry point or overload, a convenience wrapper, a trait implementation of a wrapper type, a conversion helper, a default value) while the common way stays correct; (2) one in code shared with other modules (a utility function, a constant, a trait default method, an error path) whose effect on THIS property is indirect; (3) one that changes WHAT is returned in a way that still looks plausible (order, duplicates, one element more or fewer, a value that is right modulo a period or a sign convention, a flag or a field of the result) rather than making the result grossly wrong.",
}
os.makedirs(root, exist_ok=True)
props = {}
for l in open('/verif/properties.jsonl'):
    p = json.loads(l); props[p['id']] = p
known = {}
for d in sorted(glob.glob('/verif/seeded/C*')):
    if os.path.isdir(d):
        m = json.load(open(d + '/meta.json'))
        known.setdefault(m['property'], []).append(m.get('what', ''))
base = '''You are helping to evaluate verification machinery for the Rust crate rs-opw-kinematics (analytical inverse/forward kinematics for six-axis OPW robots, joint constraints, tool/base frames, Jacobian, collision filtering, Cartesian/RRT planning).

Your own scratch git worktree of the repository is at: @@DIR@@ (work ONLY inside this directory; do not touch /repo or /verif, and do not read anything under /verif).

The file @@DIR@@/out/PROPERTY.json holds one semantic property of the crate (statement, quantifier, anchors). Read it, then read the code it is anchored in AND everything that code depends on or that depends on it (helpers, traits, wrappers, utilities, constants, other modules that call it).

TASK: produce @@N@@ different realistic code changes to the crate's source under @@DIR@@/src that each
  (1) BREAK the property (some clause of its statement, for some input in its quantifier - an input that the quantifier really covers, not a boundary case the statement leaves open),
  (2) still compile, and
  (3) still pass the existing test suite:   cd @@DIR@@ && CARGO_TARGET_DIR=@@DIR@@/target cargo test --offline --no-default-features --features allow_filesystem,collisions,stroke_planning --lib 2>&1 | grep "test result"   (66 tests must pass; first build takes a few minutes; there is no network).
@@STYLE@@
Prefer clauses of the statement and parts of the quantifier that the ideas below do NOT touch. Do not change tests, Cargo.toml, or anything guarded by `cfg(opw_verif)`; keep each change small. Do not use `git stash` (the stash is shared between worktrees); use `git diff > file`, `git checkout -- .`, `git apply file`.

These ideas were already produced by others for this property - do NOT repeat them or close variants of them:
@@KNOWN@@

For EACH change deliver, under @@DIR@@/out/ :
  - mutN.diff   : the change as a unified diff produced with `git -C @@DIR@@ diff` (N = 1..@@N@@); each diff must apply on its own to a clean checkout.
  - demoN.rs    : a small demonstration as a Rust integration test file (it will be placed in @@DIR@@/tests/demoN.rs and run with `cargo test --offline --no-default-features --features allow_filesystem,collisions,stroke_planning --test demoN`) that FAILS with the change applied and PASSES without it (deterministically, or at least 5 runs out of 5). Verify both yourself.
  - metaN.json  : {"property": "<id>", "what": "<one sentence: what was changed>", "needs": "<what is needed for it to manifest>", "files": ["..."]}
When finished, leave the worktree clean (git -C @@DIR@@ checkout -- . ; remove tests/demoN.rs), keep only the files under out/. Reply with a short summary (one line per change).
'''
for pid in props:
    d = os.path.join(root, pid)
    subprocess.run(["git", "-C", "/repo", "worktree", "add", "--detach", d, "HEAD"], stdout=subprocess.DEVNULL, stderr=subprocess.DEVNULL)
    os.makedirs(os.path.join(d, "out"), exist_ok=True)
    json.dump(props[pid], open(os.path.join(d, "out", "PROPERTY.json"), "w"), indent=1)
    kn = '\n'.join('  - ' + w for w in known.get(pid, [])) or '  (none yet)'
    open(os.path.join(root, 'PROMPT-%s.txt' % pid), 'w').write(base.replace('@@DIR@@', d).replace('@@KNOWN@@', kn).replace('@@N@@', n).replace('@@STYLE@@', STYLES[style]))
print(len(props), "prompts under", root)
