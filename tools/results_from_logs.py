#!/usr/bin/env python3
"""tools/results_from_logs.py <log> [...]  -- merge the verdict lines printed by tools/parallel_seeded.py into
seeded/RESULTS.md and seeded/<id>/meta.json (detected_by, check_results)."""
import ast, json, os, re, sys
V = "/verif"
rows = {}
for log in sys.argv[1:]:
    for l in open(log):
        m = re.match(r"^(C\d+-\S+) (DETECTED|MISSED|PATCH-DOES-NOT-APPLY) (.*)$", l.strip())
        if not m:
            continue
        sid, verdict, rest = m.groups()
        try:
            res = [x for x in ast.literal_eval(rest) if len(x) == 3]
        except Exception:
            res = []
        rows[sid] = (verdict, res)
path = os.path.join(V, "seeded", "RESULTS.md")
old = {}
if os.path.exists(path):
    for l in open(path):
        if l.startswith("| ") and not l.startswith("| id") and not l.startswith("|---"):
            c = [x.strip() for x in l.strip().strip("|").split("|")]
            old[c[0]] = c
for sid, (verdict, res) in rows.items():
    mp = os.path.join(V, "seeded", sid, "meta.json")
    meta = json.load(open(mp))
    meta["detected_by"] = [p for p, rc, _ in res if rc == 1]
    meta["check_results"] = [{"check": p, "exit": rc, "signatures": s} for p, rc, s in res]
    json.dump(meta, open(mp, "w"), indent=1)
    detail = "; ".join("%s exit %d %s" % (p, rc, s[:1]) for p, rc, s in res)
    old[sid] = [sid, meta["property"], verdict, meta.get("what", "")[:140].replace("|", "/"), detail.replace("|", "/")[:200]]
with open(path, "w") as f:
    f.write("# Seeded changes and the checks that catch them\n\n| id | property | quick check | change | detail |\n|---|---|---|---|---|\n")
    for k in sorted(old):
        f.write("| " + " | ".join(old[k]) + " |\n")
print(len(rows), "rows merged;", sum(1 for v, _ in rows.values() if v == "DETECTED"), "detected")
