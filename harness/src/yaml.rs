//! C19: parameter YAML. B1 replay of the Gen_Yaml variant lattice, to_yaml round trips, malformed files.
use crate::robots;
use crate::util::*;
use rand::Rng;
use rs_opw_kinematics::parameters::opw_kinematics::Parameters;
use serde_json::{json, Value};
use std::io::Write;

fn tmp_path(tag: &str, n: usize) -> std::path::PathBuf {
    let dir = std::env::var("VERIF_TMP").unwrap_or_else(|_| "/tmp".into());
    std::path::Path::new(&dir).join(format!("opwv-{}-{}-{}.yaml", std::process::id(), tag, n))
}

enum Parsed { Ok(Parameters), Err(String), Panic }

fn parse_text(text: &[u8], tag: &str, n: usize) -> Parsed {
    let path = tmp_path(tag, n);
    std::fs::File::create(&path).unwrap().write_all(text).unwrap();
    let r = guarded(|| Parameters::from_yaml_file(&path));
    let _ = std::fs::remove_file(&path);
    match r { None => Parsed::Panic, Some(Ok(p)) => Parsed::Ok(p), Some(Err(e)) => Parsed::Err(format!("{}", e)) }
}

fn render_number(style: &str, v: f64) -> String {
    match style {
        "int" => format!("{}", v as i64),
        _ => if v.fract() == 0.0 { format!("{:.1}", v) } else { format!("{}", v) },
    }
}

/// render one variant; returns (text, expected lengths, expected offsets (rad), signs)
fn render(line: &Value, r: &mut rand::rngs::StdRng) -> (String, [f64; 7], [f64; 6], [i8; 6]) {
    let style = line["lengths"].as_str().unwrap();
    let names = ["a1", "a2", "b", "c1", "c2", "c3", "c4"];
    let mut lens = [0.0; 7];
    let mut toks: Vec<String> = Vec::new();
    for i in 0..7 {
        let int_style = match style { "all-int" => true, "all-real" => false, _ => i % 2 == 0 };
        if int_style {
            lens[i] = [0.0, 1.0, -1.0, 2.0, 1.0, 3.0, 0.0][(i + r.gen_range(0..7)) % 7];
            toks.push(render_number("int", lens[i]));
        } else {
            lens[i] = if r.gen_bool(0.3) { [0.0, 1.0, -2.0][i % 3] } else { (r.gen_range(-0.9..0.9f64) * 1000.0).round() / 1000.0 };
            toks.push(render_number("real", lens[i]));
        }
    }
    let noff = line["noff"].as_u64().unwrap() as usize;
    let nsign = line["nsign"].as_u64().unwrap() as usize;
    let mut offs = [0.0; 6];
    let mut off_toks = Vec::new();
    for i in 0..noff {
        match line["offsets"][i].as_str().unwrap() {
            "int" => { let v = [0i64, 0, 1, -1][r.gen_range(0..4)]; offs[i] = v as f64; off_toks.push(format!("{}", v)); }
            "real" => { let v = (r.gen_range(-3.0..3.0f64) * 1e4).round() / 1e4; offs[i] = v; off_toks.push(render_number("real", v)); }
            "deg-int" => { let v = [-90i64, 180, 45, 0][r.gen_range(0..4)]; offs[i] = (v as f64).to_radians(); off_toks.push(format!("deg({})", v)); }
            _ => { let v = (r.gen_range(-180.0..180.0f64) * 1e4).round() / 1e4; offs[i] = v.to_radians(); off_toks.push(format!("deg({:.4})", v)); }
        }
    }
    let mut signs = [1i8; 6];
    for i in 0..5 { signs[i] = if r.gen_bool(0.5) { 1 } else { -1 }; }
    signs[5] = line["sign6"].as_i64().unwrap() as i8;
    let sign_toks: Vec<String> = (0..nsign).map(|i| format!("{}", signs[i])).collect();
    let layout = line["layout"].as_str().unwrap();
    let ind = if layout == "indent4" { "    " } else { "  " };
    let cm = |s: &str| if layout == "comments" { format!(" # {}", s) } else { String::new() };
    let mut t = String::new();
    if layout == "comments" { t.push_str("#\n# generated variant\n#\n"); }
    t.push_str(&format!("opw_kinematics_geometric_parameters:{}\n", cm("metres")));
    // (the entries of a YAML mapping come in any order: the documented one, the reverse, or shuffled - the nested DOF entry
    //  anywhere among them)
    let mut block: Vec<String> = (0..7).map(|i| format!("{}{}: {}{}\n", ind, names[i], toks[i], if i == 2 { cm("offset") } else { String::new() })).collect();
    if line["dof_place"] == "nested" { block.push(format!("{}dof: {}{}\n", ind, line["dof_value"], cm("degrees of freedom"))); }
    match r.gen_range(0..3) {
        0 => {}
        1 => block.reverse(),
        _ => { for i in (1..block.len()).rev() { let j = r.gen_range(0..=i); block.swap(i, j); } }
    }
    for l in &block { t.push_str(l); }
    if noff > 0 { t.push_str(&format!("opw_kinematics_joint_offsets: [{}]{}\n", off_toks.join(", "), cm("radians or deg()"))); }
    if nsign > 0 { t.push_str(&format!("opw_kinematics_joint_sign_corrections: [{}]\n", sign_toks.join(if layout == "plain" { ", " } else { "," }))); }
    if line["dof_place"] == "top" { t.push_str(&format!("dof: {}\n", line["dof_value"])); }
    if layout == "comments" { t.push_str("\n# Constraints are not loaded when reading parameters from file.\nconstraints:\n  from: [deg(-179.0000), 0, 0, 0, 0, 0]\n  to: [deg(179.0000), 0, 0, 0, 0, 0]\n"); }
    (t, lens, offs, signs)
}

fn lens_of(p: &Parameters) -> [f64; 7] { [p.a1, p.a2, p.b, p.c1, p.c2, p.c3, p.c4] }

pub fn replay(input: &str, output: &str) {
    quiet_panics();
    let mut lines = read_ndjson(input);
    // (the second pass of the check reads the variants in the opposite order: what a file means does not depend on
    //  the files read before it in the same process)
    if std::env::var("VERIF_ORDER").map(|x| x == "reverse").unwrap_or(false) {
        lines.reverse();
        // ... with the files of 5-DOF robots that leave out an array in front
        lines.sort_by_key(|l| (l["expect_dof"].as_i64().unwrap_or(6), l["nsign"].as_i64().unwrap_or(6).min(l["noff"].as_i64().unwrap_or(6))));
    }
    let mut out = Out::create(output);
    let mut r = rng(1919);
    let mut evals = 0u64;
    let mut nontrivial = 0u64;
    for (id, line) in lines.iter().enumerate() {
        let (text, lens, offs, signs) = render(line, &mut r);
        evals += 1;
        let desc = json!({"variant": {"lengths": line["lengths"], "offsets": line["offsets"], "noff": line["noff"], "nsign": line["nsign"], "dof": [line["dof_place"], line["dof_value"]], "layout": line["layout"]}, "text": text});
        let class = format!("lengths-{}:dof-{}", line["lengths"].as_str().unwrap(), line["dof_place"].as_str().unwrap());
        match parse_text(text.as_bytes(), "v", id) {
            Parsed::Panic => out.put(json!({"sig": format!("yaml:documented-variant-panics:{}", class), "detail": desc.to_string(), "data": desc})),
            Parsed::Err(e) => out.put(json!({"sig": format!("yaml:documented-variant-rejected:{}", class), "detail": format!("{} ; {}", e, desc), "data": desc})),
            Parsed::Ok(p) => {
                nontrivial += 1;
                let got = lens_of(&p);
                if (0..7).any(|i| (got[i] - lens[i]).abs() > 1e-12) {
                    out.put(json!({"sig": format!("yaml:lengths-differ:{}", class), "detail": format!("{:?} vs {:?}; {}", got, lens, desc), "data": desc}));
                }
                let want_dof = line["expect_dof"].as_i64().unwrap() as i8;
                if p.dof != want_dof {
                    out.put(json!({"sig": format!("yaml:dof-differs:dof-{}", line["dof_place"].as_str().unwrap()), "detail": format!("dof {} expected {}; {}", p.dof, want_dof, desc), "data": desc}));
                }
                let want6 = line["expect_sign6"].as_i64().unwrap() as i8;
                let mut ws = if line["nsign"] == 0 { [1i8; 6] } else { signs };
                ws[5] = want6;
                if p.sign_corrections != ws && p.dof == want_dof {
                    out.put(json!({"sig": "yaml:signs-differ", "detail": format!("{:?} vs {:?}; {}", p.sign_corrections, ws, desc), "data": desc}));
                }
                let mut wo = if line["noff"] == 0 { [0.0; 6] } else { offs };
                if line["expect_off6_zero"].as_bool().unwrap() { wo[5] = 0.0; }
                if (0..6).any(|i| (p.offsets[i] - wo[i]).abs() > 1e-9) {
                    out.put(json!({"sig": "yaml:offsets-differ", "detail": format!("{:?} vs {:?}; {}", p.offsets, wo, desc), "data": desc}));
                }
            }
        }
        // the same file overwritten right away with other content of the same length (one digit of c1 changed): the
        // parameters are those of the file as it is now
        if id % 3 == 0 {
            if let Some(at) = text.find("c1: ") {
                let end = at + text[at..].find('\n').unwrap_or(text.len() - at);
                let tok_end = text[at..end].find(" #").map(|x| at + x).unwrap_or(end);
                let tok = &text[at + 4..tok_end];
                if let Some(dpos) = tok.rfind(|c: char| c.is_ascii_digit()) {
                    let d = tok.as_bytes()[dpos] - b'0';
                    let mut nt = tok.to_string();
                    nt.replace_range(dpos..dpos + 1, &format!("{}", (d + 1) % 10));
                    if let Ok(want_c1) = nt.trim().parse::<f64>() {
                        let text2 = format!("{}{}{}", &text[..at + 4], nt, &text[tok_end..]);
                        evals += 1;
                        if let Parsed::Ok(p2) = parse_text(text2.as_bytes(), "v", id) {
                            if (p2.c1 - want_c1).abs() > 1e-12 {
                                out.put(json!({"sig": "yaml:rewritten-file-gives-earlier-parameters", "detail": format!("c1 = {} after the file was rewritten with c1: {}; {}", p2.c1, nt, desc), "data": desc}));
                            }
                        }
                    }
                }
            }
        }
        if id == 17 { out.put(json!({"sample": {"variant": desc["variant"], "text": text}})); }
    }
    // ---- round trips of to_yaml
    let mut sets: Vec<(String, Parameters)> = robots::named_robots().into_iter().map(|(n, p)| (n.to_string(), p)).collect();
    let n_rand = if thorough() { 10000 } else { 300 };
    for k in 0..n_rand {
        let mut p = robots::geometry(robots::GEOMETRY_CLASSES[k % robots::GEOMETRY_CLASSES.len()], &mut r);
        p = robots::convention(p, r.gen_range(0..64), ["zero", "quarter", "random"][k % 3], &mut r);
        if k % 3 == 0 { p.b = [0.0, 1.0, -1.0][(k / 3) % 3]; p.a2 = 0.0; }       // integral-valued lengths
        if k % 5 == 0 { p.c1 = 1.0; p.c4 = 0.0; }
        if k % 4 == 0 { p.dof = 5; p.sign_corrections[5] = 0; }
        if k % 7 == 0 { p.sign_corrections[5] = 0; }
        if k % 6 == 1 {
            // offsets of the order of the printed precision (1e-4 degree = 1.7e-6 rad) and a little above
            for j in 0..6 { if r.gen_bool(0.5) { p.offsets[j] = r.gen_range(1.0e-6..9.0e-5) * if r.gen_bool(0.5) { 1.0 } else { -1.0 }; } }
        }
        sets.push((format!("random-{}", k), p));
    }
    for (n, (name, p)) in sets.iter().enumerate() {
        // (every third description was printed once before its offsets, sign corrections and DOF were assigned through
        //  the public fields: what is printed is the object as it is now)
        let mut holder = *p;
        if n % 3 == 2 {
            holder.offsets = [0.0; 6];
            holder.sign_corrections = [1; 6];
            holder.dof = if p.dof == 5 { 6 } else { 5 };
            let _ = guarded(|| holder.to_yaml());
            holder.offsets = p.offsets;
            holder.sign_corrections = p.sign_corrections;
            holder.dof = p.dof;
        }
        let p = &holder;
        let mut text = p.to_yaml();
        // every second file carries the limits as the library prints them (Constraints::to_yaml): the section is not
        // read back, the parameters in front of it are; the printed limits are the limits to the printed precision
        if n % 2 == 1 {
            let from: [f64; 6] = std::array::from_fn(|i| if (n + i) % 5 == 0 { 0.0 } else { r.gen_range(-6.2..6.2) });
            let to: [f64; 6] = std::array::from_fn(|i| if (n + i) % 7 == 0 { 0.0 } else { r.gen_range(-6.2..6.2) });
            let c = rs_opw_kinematics::constraints::Constraints::new(from, to, 0.0);
            if let Some(section) = guarded(|| c.to_yaml()) {
                evals += 1;
                let nums = |line: &str| -> Vec<f64> {
                    line.split(|ch| ch == '[' || ch == ']').nth(1).unwrap_or("").split(',').filter_map(|t| {
                        let t = t.trim();
                        if let Some(x) = t.strip_prefix("deg(").and_then(|x| x.strip_suffix(')')) { x.parse::<f64>().ok().map(|d| d.to_radians()) } else { t.parse::<f64>().ok() }
                    }).collect()
                };
                let lf: Vec<f64> = section.lines().find(|l| l.trim_start().starts_with("from:")).map(nums).unwrap_or_default();
                let lt: Vec<f64> = section.lines().find(|l| l.trim_start().starts_with("to:")).map(nums).unwrap_or_default();
                let tol = (0.00005f64).to_radians() * 1.01;
                if !(section.starts_with("constraints:") && lf.len() == 6 && lt.len() == 6 && (0..6).all(|i| (lf[i] - from[i]).abs() <= tol && (lt[i] - to[i]).abs() <= tol)) {
                    out.put(json!({"sig": "yaml:printed-limits-differ-from-the-limits", "detail": format!("{:?} .. {:?} printed as {}", from, to, section)}));
                }
                text.push_str(&section);
            } else {
                out.put(json!({"sig": "yaml:printing-limits-panics", "detail": format!("{:?} .. {:?}", from, to)}));
            }
        }
        evals += 1;
        let integral = lens_of(p).iter().any(|x| x.fract() == 0.0);
        let class = format!("{}:{}", if integral { "integral-length" } else { "fractional-lengths" }, if p.dof == 5 { "dof5" } else { "dof6" });
        let desc = json!({"params": robots::params_json(p), "printed": text, "name": name});
        match parse_text(text.as_bytes(), "rt", n) {
            Parsed::Panic => out.put(json!({"sig": format!("yaml:round-trip-panics:{}", class), "detail": desc.to_string(), "data": desc})),
            Parsed::Err(e) => out.put(json!({"sig": format!("yaml:round-trip-rejected:{}", class), "detail": format!("{} ; {}", e, desc), "data": desc})),
            Parsed::Ok(g) => {
                nontrivial += 1;
                let same_len = (0..7).all(|i| lens_of(&g)[i] == lens_of(p)[i]);
                let want_sign = { let mut s = p.sign_corrections; if p.dof == 5 { s[5] = 0; } s };
                let tol = (0.00005f64).to_radians() * 1.01;
                let same_off = (0..6).all(|i| (g.offsets[i] - p.offsets[i]).abs() <= tol);
                if !same_len { out.put(json!({"sig": format!("yaml:round-trip-geometry-differs:{}", class), "detail": desc.to_string(), "data": desc})); }
                if g.sign_corrections != want_sign { out.put(json!({"sig": format!("yaml:round-trip-signs-differ:{}", class), "detail": format!("{:?}; {}", g.sign_corrections, desc), "data": desc})); }
                if g.dof != p.dof { out.put(json!({"sig": format!("yaml:round-trip-dof-differs:{}", class), "detail": format!("read dof {}; {}", g.dof, desc), "data": desc})); }
                if !same_off { out.put(json!({"sig": format!("yaml:round-trip-offsets-differ:{}", class), "detail": format!("{:?}; {}", g.offsets, desc), "data": desc})); }
            }
        }
    }
    // ---- malformed files: an error value, never a panic
    let good = Parameters::irb2400_10().to_yaml();
    let mut bad: Vec<(String, Vec<u8>)> = vec![
        ("empty".into(), vec![]), ("whitespace".into(), b"  \n\n".to_vec()), ("comment-only".into(), b"# nothing\n".to_vec()),
        ("scalar-root".into(), b"42\n".to_vec()), ("list-root".into(), b"- 1\n- 2\n".to_vec()),
        ("missing-geometry".into(), b"opw_kinematics_joint_offsets: [0,0,0,0,0,0]\n".to_vec()),
        ("geometry-is-list".into(), b"opw_kinematics_geometric_parameters: [1,2,3]\n".to_vec()),
        ("string-length".into(), good.replace("a1: ", "a1: abc").into_bytes()),
        ("short-offsets".into(), b"opw_kinematics_geometric_parameters:\n  a1: 0.1\n  a2: 0.1\n  b: 0.0\n  c1: 0.1\n  c2: 0.1\n  c3: 0.1\n  c4: 0.1\nopw_kinematics_joint_offsets: [0,0,0]\n".to_vec()),
        ("long-signs".into(), b"opw_kinematics_geometric_parameters:\n  a1: 0.1\n  a2: 0.1\n  b: 0.0\n  c1: 0.1\n  c2: 0.1\n  c3: 0.1\n  c4: 0.1\nopw_kinematics_joint_sign_corrections: [1,1,1,1,1,1,1,1]\n".to_vec()),
        ("dof5-four-signs".into(), b"opw_kinematics_geometric_parameters:\n  a1: 0.1\n  a2: 0.1\n  b: 0.0\n  c1: 0.1\n  c2: 0.1\n  c3: 0.1\n  c4: 0.1\nopw_kinematics_joint_sign_corrections: [1, 1, -1, -1]\ndof: 5\n".to_vec()),
        ("dof5-no-signs-entries".into(), b"opw_kinematics_geometric_parameters:\n  a1: 0.1\n  a2: 0.1\n  b: 0.0\n  c1: 0.1\n  c2: 0.1\n  c3: 0.1\n  c4: 0.1\n  dof: 5\nopw_kinematics_joint_sign_corrections: []\n".to_vec()),
        ("dof5-three-offsets".into(), b"opw_kinematics_geometric_parameters:\n  a1: 0.1\n  a2: 0.1\n  b: 0.0\n  c1: 0.1\n  c2: 0.1\n  c3: 0.1\n  c4: 0.1\nopw_kinematics_joint_offsets: [0, 0, 0]\ndof: 5\n".to_vec()),
        ("bad-deg".into(), good.replace("[0,", "[deg(x),").into_bytes()),
        ("bad-deg-0".into(), good.replace("[0,", "[deg)90(,").into_bytes()),
        ("bad-deg-1".into(), good.replace("[0,", "[deg)(,").into_bytes()),
        ("bad-deg-2".into(), good.replace("[0,", "[deg(,").into_bytes()),
        ("bad-deg-3".into(), good.replace("[0,", "[deg),").into_bytes()),
        ("bad-deg-4".into(), good.replace("[0,", "[deg((),").into_bytes()),
        ("bad-deg-5".into(), good.replace("[0,", "[deg(1)),").into_bytes()),
        ("bad-deg-6".into(), good.replace("[0,", "[deg,").into_bytes()),
        ("bad-deg-7".into(), good.replace("[0,", "[deg(),").into_bytes()),
        ("bad-deg-8".into(), good.replace("[0,", "['deg( )',").into_bytes()),
        ("bad-deg-9".into(), good.replace("[0,", "[deg(90,").into_bytes()),
        ("bad-deg-10".into(), good.replace("[0,", "[(deg)90,").into_bytes()),
        ("bad-deg-11".into(), good.replace("[0,", "[deg(9 0),").into_bytes()),
        ("bad-deg-12".into(), good.replace("[0,", "[deg(--9),").into_bytes()),
        ("bad-deg-13".into(), good.replace("[0,", "[deg(1e999),").into_bytes()),
        ("bad-deg-14".into(), good.replace("[0,", "[deg(nan),").into_bytes()),
        ("unterminated".into(), b"opw_kinematics_geometric_parameters: {a1: 1.0\n".to_vec()),
        ("tabs".into(), b"opw_kinematics_geometric_parameters:\n\ta1: 1.0\n".to_vec()),
        ("huge-sign".into(), good.replace("[1,", "[99999999999,").into_bytes()),
        ("dof-string".into(), good.replace("dof: 6", "dof: six").into_bytes()),
        ("two-documents".into(), format!("---\n{}---\n{}", good, good).into_bytes()),
        ("nan".into(), good.replace("a1: ", "a1: .nan #").into_bytes()),
    ];
    let n_fuzz = if thorough() { 100_000 } else { 1_500 };
    let gb = good.as_bytes();
    for k in 0..n_fuzz {
        let mut b = if k % 3 == 0 { (0..r.gen_range(0..200)).map(|_| r.gen::<u8>()).collect::<Vec<u8>>() } else { gb.to_vec() };
        if k % 3 != 0 {
            for _ in 0..r.gen_range(1..6) {
                if b.is_empty() { break; }
                let i = r.gen_range(0..b.len());
                match r.gen_range(0..4) { 0 => b[i] = r.gen::<u8>(), 1 => { b.remove(i); } 2 => b.insert(i, *pick(&mut r, &[b':', b'[', b']', b'\n', b' ', b'-', b'"', b'{', b'#', b'(', b'0'])), _ => { b.truncate(i); } }
            }
        }
        bad.push((format!("fuzz-{}", k % 3), b));
    }
    for (n, (name, bytes)) in bad.iter().enumerate() {
        evals += 1;
        if let Parsed::Panic = parse_text(bytes, "bad", n) {
            out.put(json!({"sig": format!("yaml:malformed-file-panics:{}", if name.starts_with("fuzz") { "fuzzed" } else { name }), "detail": format!("{:?}", String::from_utf8_lossy(bytes)), "data": {"bytes": bytes}}));
        }
        // a well-formed file read right after it (after every hand-written one, after every twentieth fuzzed one) means
        // what it says, whatever was read before
        if !name.starts_with("fuzz") || n % 20 == 0 {
            evals += 1;
            let w = Parameters::irb2400_10();
            let ok = match parse_text(good.as_bytes(), "after-bad", n) {
                Parsed::Ok(g) => lens_of(&g) == lens_of(&w) && g.sign_corrections == w.sign_corrections && g.dof == w.dof && (0..6).all(|i| (g.offsets[i] - w.offsets[i]).abs() < 1e-6),
                _ => false,
            };
            if !ok { out.put(json!({"sig": "yaml:well-formed-file-misread-after-a-malformed-one", "detail": format!("after {:?}", String::from_utf8_lossy(bytes))})); }
        }
    }
    out.put(json!({"stats": {"lines": lines.len(), "evaluations": evals, "nontrivial": nontrivial}}));
    out.finish();
}
