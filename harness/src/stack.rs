//! C09: wrapper stacks. B1 replay of Gen_Stack scenarios: the same stack is built (a) around a
//! recording leaf, to observe the delegation matrix, and (b) around the real OPW solver.
use crate::chain::{joints_for, lattice_params, UNIT_M};
use crate::lattice;
use crate::oracle::{self, Iso};
use crate::robots;
use crate::util::*;
use nalgebra::Translation3;
use rs_opw_kinematics::constraints::{Constraints, BY_PREV};
use rs_opw_kinematics::frame::Frame;
use rs_opw_kinematics::kinematic_traits::{Joints, Kinematics, Pose, Singularity, Solutions};
use rs_opw_kinematics::kinematics_impl::OPWKinematics;
use rs_opw_kinematics::tool::{Base, Gantry, LinearAxis, Tool};
use serde_json::{json, Value};
use std::sync::{Arc, Mutex};

#[derive(Clone, Debug)]
pub struct Call {
    pub method: &'static str,
    pub pose: Option<Iso>,
    pub prev: Option<[u64; 6]>,
    pub j6: Option<u64>,
    pub q: Option<[u64; 6]>,
}

pub struct RecLeaf {
    pub calls: Mutex<Vec<Call>>,
    pub answers: Solutions,
    pub fwd: Pose,
    pub links: [Pose; 6],
    pub constraints: Option<Constraints>,
}

fn bits(q: &Joints) -> [u64; 6] { std::array::from_fn(|i| q[i].to_bits()) }

impl RecLeaf {
    fn log(&self, c: Call) { self.calls.lock().unwrap().push(c); }
    pub fn take(&self) -> Vec<Call> { std::mem::take(&mut *self.calls.lock().unwrap()) }
}

impl Kinematics for RecLeaf {
    fn inverse(&self, pose: &Pose) -> Solutions {
        self.log(Call { method: "inverse", pose: Some(Iso::from_na(pose)), prev: None, j6: None, q: None });
        self.answers.clone()
    }
    fn inverse_continuing(&self, pose: &Pose, previous: &Joints) -> Solutions {
        self.log(Call { method: "inverse_continuing", pose: Some(Iso::from_na(pose)), prev: Some(bits(previous)), j6: None, q: None });
        self.answers.clone()
    }
    fn forward(&self, qs: &Joints) -> Pose {
        self.log(Call { method: "forward", pose: None, prev: None, j6: None, q: Some(bits(qs)) });
        self.fwd
    }
    fn inverse_5dof(&self, pose: &Pose, j6: f64) -> Solutions {
        self.log(Call { method: "inverse_5dof", pose: Some(Iso::from_na(pose)), prev: None, j6: Some(j6.to_bits()), q: None });
        self.answers.clone()
    }
    fn inverse_continuing_5dof(&self, pose: &Pose, prev: &Joints) -> Solutions {
        self.log(Call { method: "inverse_continuing_5dof", pose: Some(Iso::from_na(pose)), prev: Some(bits(prev)), j6: None, q: None });
        self.answers.clone()
    }
    fn constraints(&self) -> &Option<Constraints> {
        self.log(Call { method: "constraints", pose: None, prev: None, j6: None, q: None });
        &self.constraints
    }
    fn kinematic_singularity(&self, qs: &Joints) -> Option<Singularity> {
        self.log(Call { method: "kinematic_singularity", pose: None, prev: None, j6: None, q: Some(bits(qs)) });
        if qs[4] == 0.0 { Some(Singularity::A) } else { None }
    }
    fn forward_with_joint_poses(&self, joints: &Joints) -> [Pose; 6] {
        self.log(Call { method: "forward_with_joint_poses", pose: None, prev: None, j6: None, q: Some(bits(joints)) });
        self.links
    }
}

pub enum Built {
    Kin(Arc<dyn Kinematics>),
    Axis(LinearAxis, f64),
    Gantry(Gantry, [f64; 3]),
}

/// layers are outermost first
pub fn build(layers: &[Value], leaf: Arc<dyn Kinematics>) -> Built {
    let mut cur = leaf;
    for (pos, l) in layers.iter().enumerate().rev() {
        let iso = lattice::iso(&l["iso"], UNIT_M).to_na();
        match l["k"].as_str().unwrap() {
            "Tool" => cur = Arc::new(Tool { robot: cur, tool: iso }),
            "Frame" => cur = Arc::new(Frame { robot: cur, frame: iso }),
            "Base" => cur = Arc::new(Base { robot: cur, base: iso }),
            "Axis" => {
                assert_eq!(pos, 0);
                return Built::Axis(LinearAxis::verif_new(cur, l["axis"].as_u64().unwrap() as u32, iso), l["dist"].as_i64().unwrap() as f64 * UNIT_M);
            }
            "Gantry" => {
                assert_eq!(pos, 0);
                let s = ivec(&l["shift"]);
                return Built::Gantry(Gantry::verif_new(cur, iso), [s[0] as f64 * UNIT_M, s[1] as f64 * UNIT_M, s[2] as f64 * UNIT_M]);
            }
            k => panic!("unknown layer {}", k),
        }
    }
    Built::Kin(cur)
}

/// the stack applied by the float oracle: bases * leaf * tools
pub fn oracle_forward(layers: &[Value], leaf: &Iso) -> Iso {
    let mut cur = *leaf;
    for l in layers.iter().rev() {
        let iso = lattice::iso(&l["iso"], UNIT_M);
        match l["k"].as_str().unwrap() {
            "Tool" | "Frame" => cur = cur.mul(&iso),
            "Base" => cur = iso.mul(&cur),
            "Axis" => {
                let d = l["dist"].as_i64().unwrap() as f64 * UNIT_M;
                let mut t = [0.0; 3];
                t[l["axis"].as_u64().unwrap() as usize] = d;
                cur = iso.mul(&Iso { r: oracle::I3, t }).mul(&cur);
            }
            "Gantry" => {
                let s = ivec(&l["shift"]);
                cur = iso.mul(&Iso { r: oracle::I3, t: [s[0] as f64 * UNIT_M, s[1] as f64 * UNIT_M, s[2] as f64 * UNIT_M] }).mul(&cur);
            }
            _ => {}
        }
    }
    cur
}

fn shape(layers: &[Value]) -> String {
    if layers.is_empty() { return "bare".into(); }
    layers.iter().map(|l| l["k"].as_str().unwrap().to_string()).collect::<Vec<_>>().join(">")
}

/// all tool/frame layers are on the flange axis (translation along z, rotation about z)
fn axial(layers: &[Value]) -> bool {
    layers.iter().all(|l| {
        let k = l["k"].as_str().unwrap();
        if k == "Tool" || k == "Frame" {
            let i = l["idx"].as_i64().unwrap();
            i == 5 || i == 6
        } else { true }
    })
}

const ENTRIES: [&str; 4] = ["inverse", "inverse_continuing", "inverse_5dof", "inverse_continuing_5dof"];

fn call_entry(k: &dyn Kinematics, entry: &str, pose: &Pose, prev: &Joints, j6: f64) -> Solutions {
    match entry {
        "inverse" => k.inverse(pose),
        "inverse_continuing" => k.inverse_continuing(pose, prev),
        "inverse_5dof" => k.inverse_5dof(pose, j6),
        _ => k.inverse_continuing_5dof(pose, prev),
    }
}

pub fn replay(input: &str, output: &str) {
    quiet_panics();
    let lines = read_ndjson(input);
    let mut out = Out::create(output);
    let mut r = rng(9);
    let mut evals = 0u64;
    let mut nontrivial = 0u64;
    let tol = 1e-9;
    let mut previous_wrapper: Option<Arc<dyn Kinematics>> = None;
    for (id, line) in lines.iter().enumerate() {
        let layers: Vec<Value> = line["layers"].as_array().unwrap().clone();
        let sh = shape(&layers);
        let want_pose = lattice::iso(&line["pose"], UNIT_M);
        let leaf_pose = lattice::iso(&line["leaf_pose"], UNIT_M);
        let leaf_links: Vec<Iso> = line["leaf_links"].as_array().unwrap().iter().map(|l| lattice::iso(l, UNIT_M)).collect();
        let want_links: Vec<Iso> = line["links"].as_array().unwrap().iter().map(|l| lattice::iso(l, UNIT_M)).collect();
        let e = ivec(&line["e"]);
        if layers.len() >= 2 { nontrivial += 1; }
        let ctx = json!({"stack": sh, "layers": layers.iter().map(|l| json!({"k": l["k"], "idx": l["idx"]})).collect::<Vec<_>>(), "e": e});
        let mut report = |sig: String, detail: String| {
            out.put(json!({"sig": sig, "detail": format!("{} {}", detail, ctx), "data": ctx}));
        };

        // ---------- (a) recording leaf: the delegation matrix
        let canned: Solutions = vec![[0.1, -0.2, 0.3, 4.0, -0.5, 7.0], [1.0, 1.1, -1.2, 1.3, 0.0, -1.5]];
        let rec = Arc::new(RecLeaf {
            calls: Mutex::new(Vec::new()),
            answers: canned.clone(),
            fwd: leaf_pose.to_na(),
            links: std::array::from_fn(|i| leaf_links[i].to_na()),
            constraints: Some(Constraints::new([-1.0; 6], [1.5; 6], BY_PREV)),
        });
        let built = build(&layers, rec.clone());
        let q_probe: Joints = [0.3, -0.4, 0.5, 7.5, 0.0, -9.25];
        match &built {
            Built::Kin(k) => {
                for entry in ENTRIES {
                    let prev: Joints = [7.0, -0.25, 0.5, -3.5, 0.125, 1.234 + id as f64 * 1e-3];
                    let j6 = -2.468 + id as f64 * 1e-3;
                    rec.take();
                    let ans = match guarded(|| call_entry(k.as_ref(), entry, &want_pose.to_na(), &prev, j6)) {
                        Some(a) => a,
                        None => { report(format!("stack:{}:{}:panic", sh, entry), "panicked".into()); continue; }
                    };
                    evals += 1;
                    let calls = rec.take();
                    let want_entry = line["leaf_entry"][entry].as_str().unwrap();
                    let inv_calls: Vec<&Call> = calls.iter().filter(|c| c.method.starts_with("inverse")).collect();
                    if inv_calls.len() != 1 {
                        report(format!("stack:{}:{}:leaf-called-{}-times", sh, entry, inv_calls.len()), "".into());
                        continue;
                    }
                    let c = inv_calls[0];
                    if c.method != want_entry {
                        report(format!("stack:{}:{}:delegates-to={}", sh, entry, c.method), format!("expected the leaf to be asked {}", want_entry));
                    }
                    let (dp, dr) = lattice::iso_max_diff(c.pose.as_ref().unwrap(), &leaf_pose);
                    if !(dp <= tol && dr <= tol) {
                        report(format!("stack:{}:{}:leaf-pose-wrong", sh, entry), format!("leaf received a pose off by {:.3e} m / {:.3e}", dp, dr));
                    }
                    if let Some(p) = c.prev { if p != bits(&prev) { report(format!("stack:{}:{}:previous-altered", sh, entry), "".into()); } }
                    if let Some(j) = c.j6 { if j != j6.to_bits() { report(format!("stack:{}:{}:j6-altered", sh, entry), "".into()); } }
                    if ans != canned {
                        report(format!("stack:{}:{}:answers-altered", sh, entry), format!("{:?}", ans));
                    }
                }
                rec.take();
                let f = Iso::from_na(&k.forward(&q_probe));
                let calls = rec.take();
                evals += 1;
                if calls.iter().filter(|c| c.method == "forward" && c.q == Some(bits(&q_probe))).count() != 1 || calls.len() != 1 {
                    report(format!("stack:{}:forward:delegation", sh), format!("{:?}", calls.iter().map(|c| c.method).collect::<Vec<_>>()));
                }
                let (dp, dr) = lattice::iso_max_diff(&f, &want_pose);
                if !(dp <= tol && dr <= tol) { report(format!("stack:{}:forward:pose-wrong", sh), format!("off by {:.3e} m / {:.3e}", dp, dr)); }
                let l = k.forward_with_joint_poses(&q_probe);
                let calls = rec.take();
                evals += 1;
                if calls.iter().filter(|c| c.method == "forward_with_joint_poses" && c.q == Some(bits(&q_probe))).count() != 1 || calls.len() != 1 {
                    report(format!("stack:{}:forward_with_joint_poses:delegation", sh), format!("{:?}", calls.iter().map(|c| c.method).collect::<Vec<_>>()));
                }
                for i in 0..6 {
                    let (dp, dr) = lattice::iso_max_diff(&Iso::from_na(&l[i]), &want_links[i]);
                    if !(dp <= tol && dr <= tol) { report(format!("stack:{}:forward_with_joint_poses:link{}-wrong", sh, i + 1), format!("off by {:.3e} m / {:.3e}", dp, dr)); }
                }
                // limits and singularity are the leaf's
                let c = k.constraints();
                let same = match c { Some(c) => c.from == [-1.0; 6] && c.to == [1.5; 6], None => false };
                if !same { report(format!("stack:{}:constraints:not-the-leafs", sh), "".into()); }
                let s1 = k.kinematic_singularity(&q_probe);
                let s2 = k.kinematic_singularity(&[0.3, -0.4, 0.5, 7.5, 0.7, -9.25]);
                if s1 != Some(Singularity::A) || s2.is_some() { report(format!("stack:{}:kinematic_singularity:not-the-leafs", sh), "".into()); }
                rec.take();
            }
            Built::Axis(a, d) => {
                let f = Iso::from_na(&a.forward(*d, &q_probe));
                evals += 1;
                let (dp, dr) = lattice::iso_max_diff(&f, &want_pose);
                if !(dp <= tol && dr <= tol) { report(format!("stack:{}:axis{}-forward:pose-wrong", sh, layers[0]["axis"]), format!("off by {:.3e} m / {:.3e}", dp, dr)); }
            }
            Built::Gantry(g, s) => {
                let f = Iso::from_na(&g.forward(&Translation3::new(s[0], s[1], s[2]), &q_probe));
                evals += 1;
                let (dp, dr) = lattice::iso_max_diff(&f, &want_pose);
                if !(dp <= tol && dr <= tol) { report(format!("stack:{}:gantry-forward:pose-wrong", sh), format!("off by {:.3e} m / {:.3e}", dp, dr)); }
            }
        }

        // ---------- (b) the real solver as leaf
        let variant = id % 3;
        let mut p = lattice_params(&line["p"]);
        if variant > 0 {
            p = robots::convention(p, (id * 11) % 64, if variant == 1 { "quarter" } else { "random" }, &mut r);
        }
        let q = joints_for(&p, &e, &[0; 6]);
        let leaf = Arc::new(OPWKinematics::new(p));
        let built = build(&layers, leaf.clone());
        if let Built::Kin(k) = &built {
            if let Some(pw) = &previous_wrapper { let _ = guarded(|| (pw.forward(&q), pw.forward_with_joint_poses(&q))); }
            previous_wrapper = Some(k.clone());
            let f = Iso::from_na(&k.forward(&q));
            evals += 1;
            let (dp, dr) = lattice::iso_max_diff(&f, &want_pose);
            if !(dp <= tol && dr <= tol) { report(format!("stack:{}:forward:real-leaf-pose-wrong", sh), format!("off by {:.3e} m / {:.3e}", dp, dr)); }
            let l = k.forward_with_joint_poses(&q);
            for i in 0..6 {
                let (dp, dr) = lattice::iso_max_diff(&Iso::from_na(&l[i]), &want_links[i]);
                if !(dp <= tol && dr <= tol) { report(format!("stack:{}:forward_with_joint_poses:real-leaf-link{}-wrong", sh, i + 1), format!("off by {:.3e} m / {:.3e}", dp, dr)); }
            }
            // every answer of every inverse entry point maps back through the stack (oracle) onto the pose
            let prev: Joints = std::array::from_fn(|i| q[i] + 0.01 * (i as f64 - 2.5));
            let j6 = q[5];
            for entry in ENTRIES {
                let five = entry.contains("5dof");
                if five && !axial(&layers) { continue; }
                let ans = match guarded(|| call_entry(k.as_ref(), entry, &want_pose.to_na(), &prev, j6)) {
                    Some(a) => a,
                    None => { report(format!("stack:{}:{}:real-leaf-panic", sh, entry), "".into()); continue; }
                };
                evals += 1;
                for a in &ans {
                    let back = oracle_forward(&layers, &oracle::fk(&p, a));
                    let dp = back.dpos(&want_pose);
                    let dr = if five { 0.0 } else { back.drot(&want_pose) };
                    if !(dp <= 1.2e-6 && dr <= 1.2e-6) {
                        report(format!("stack:{}:{}:answer-misses-pose", sh, entry), format!("answer {:?} maps back {:.3e} m / {:.3e} rad away", a, dp, dr));
                    }
                    if five {
                        let want_j6 = if entry == "inverse_5dof" { j6 } else { prev[5] };
                        if a[5].to_bits() != want_j6.to_bits() {
                            report(format!("stack:{}:{}:j6-not-callers", sh, entry), format!("J6 {} instead of {}", a[5], want_j6));
                        }
                    }
                }
                // the stack answers exactly what the leaf answers for the rewritten pose
                let direct = call_entry(leaf.as_ref(), entry, &leaf_pose.to_na(), &prev, j6);
                // compared as sets modulo 2 pi: the order of (nearly) equal-cost answers is decided by rounding
                // noise of the rewritten pose; the ordering contract itself is judged by Solver!Ordered (C04)
                let close = |a: &Joints, b: &Joints| (0..6).all(|i| { let d = (a[i] - b[i]).rem_euclid(2.0 * std::f64::consts::PI); d.min(2.0 * std::f64::consts::PI - d) < 1e-6 });
                let same = direct.len() == ans.len() && direct.iter().all(|a| ans.iter().any(|b| close(a, b))) && ans.iter().all(|a| direct.iter().any(|b| close(a, b)));
                if !same {
                    report(format!("stack:{}:{}:differs-from-leaf-entry", sh, entry), format!("stack answered {} solutions, the leaf's {} answers {} for the rewritten pose; stack {:?} leaf {:?}", ans.len(), entry, direct.len(), ans, direct));
                }
            }
        }
        if id == lines.len() / 2 {
            out.put(json!({"sample": {"stack": sh, "e": e, "expected_pose": line["pose"]}}));
        }
    }
    out.put(json!({"stats": {"lines": lines.len(), "evaluations": evals, "nontrivial": nontrivial}}));
    out.finish();
}
