//! C17: frame from three point pairs (B1 replay of Gen_Frame3 with perturbation families) and
//! Frame::forward_transformed (B3 events judged by Trace_Frame).
use crate::lattice;
use crate::oracle::{self, Iso};
use crate::robots;
use crate::solver::{self, Robot};
use crate::util::*;
use nalgebra::Point3;
use rand::Rng;
use rs_opw_kinematics::frame::{ColinearPoints, Frame, NotIsometry};
use rs_opw_kinematics::kinematic_traits::Joints;
use rs_opw_kinematics::kinematics_impl::OPWKinematics;
use serde_json::{json, Value};
use std::sync::Arc;

const UNIT: f64 = 0.01; // metres per lattice length unit

fn pt(v: &Value, scale: f64) -> [f64; 3] {
    std::array::from_fn(|i| v[i].as_i64().unwrap() as f64 / scale * UNIT)
}
fn p3(a: &[f64; 3]) -> Point3<f64> { Point3::new(a[0], a[1], a[2]) }

enum Outcome { Ok(Iso), SourceCollinear, TargetCollinear, NotIso, OtherErr, Panic }

fn build(p: &[[f64; 3]; 3], q: &[[f64; 3]; 3]) -> Outcome {
    match guarded(|| Frame::frame(p3(&p[0]), p3(&p[1]), p3(&p[2]), p3(&q[0]), p3(&q[1]), p3(&q[2]))) {
        None => Outcome::Panic,
        Some(Ok(iso)) => Outcome::Ok(Iso::from_na(&iso)),
        Some(Err(e)) => {
            if let Some(c) = e.downcast_ref::<ColinearPoints>() { if c.source { Outcome::SourceCollinear } else { Outcome::TargetCollinear } }
            else if e.downcast_ref::<NotIsometry>().is_some() { Outcome::NotIso }
            else { Outcome::OtherErr }
        }
    }
}

fn name(o: &Outcome) -> &'static str {
    match o { Outcome::Ok(_) => "ok", Outcome::SourceCollinear => "err-source-collinear", Outcome::TargetCollinear => "err-target-collinear",
        Outcome::NotIso => "err-not-isometry", Outcome::OtherErr => "err-other", Outcome::Panic => "panic" }
}

pub fn replay(input: &str, output: &str) {
    quiet_panics();
    let lines = read_ndjson(input);
    let mut out = Out::create(output);
    let mut evals = 0u64;
    let mut nontrivial = 0u64;
    let mut small = rng(1718);
    for (id, line) in lines.iter().enumerate() {
        let qs = 5f64.powi(line["qn"].as_i64().unwrap() as i32);
        let p: [[f64; 3]; 3] = std::array::from_fn(|i| pt(&line["p"][i], 1.0));
        let q: [[f64; 3]; 3] = std::array::from_fn(|i| pt(&line["q"][i], qs));
        let m = lattice::iso(&line["motion"], UNIT);
        let collinear = line["collinear"].as_bool().unwrap();
        let tri = line["tri"].as_i64().unwrap();
        let desc = json!({"tri": tri, "p": line["p"], "motion": line["motion"]});
        // Frame::translation: the frame of a pure shift is the shift of the first point pair
        if line["motion"]["n"] == 0 && line["motion"]["R"] == json!([[1, 0, 0], [0, 1, 0], [0, 0, 1]]) {
            let f = Iso::from_na(&Frame::translation(p3(&p[0]), p3(&q[0])));
            let (dp, dr) = lattice::iso_max_diff(&f, &m);
            evals += 1;
            if !(dp <= 1e-9 * (1.0 + oracle::norm(&m.t)) && dr <= 1e-12) {
                out.put(json!({"sig": "frame3:translation-frame-differs-from-shift", "detail": format!("off by {:.3e} / {:.3e}; {}", dp, dr, line["motion"])}));
            }
        }
        let o = build(&p, &q);
        evals += 1;
        if collinear {
            if !matches!(o, Outcome::SourceCollinear) {
                out.put(json!({"sig": format!("frame3:collinear-source:{}", name(&o)), "detail": desc.to_string(), "data": desc}));
            }
            continue;
        }
        nontrivial += 1;
        // the same triple measured again right away: every source point 0.01 .. 0.09 mm elsewhere, the targets their exact
        // images under the same motion - the frame is that of the points given now
        if id % 4 == 1 {
            let ps: [[f64; 3]; 3] = std::array::from_fn(|i| std::array::from_fn(|c| p[i][c] + small.gen_range(-0.09e-3..0.09e-3) * if c == i { 1.0 } else { 0.2 }));
            let qs2: [[f64; 3]; 3] = std::array::from_fn(|i| m.apply(&ps[i]));
            let o7 = build(&ps, &qs2);
            evals += 1;
            match &o7 {
                Outcome::Ok(f) => {
                    let w = (0..3).map(|i| oracle::norm(&oracle::sub(&f.apply(&ps[i]), &qs2[i]))).fold(0.0, f64::max);
                    let tol = if tri == 4 || tri == 8 { 2e-6 } else { 1e-8 } * (1.0 + oracle::norm(&qs2[0]));
                    if f.improper() > 1e-9 || !(w <= tol) {
                        out.put(json!({"sig": "frame3:re-measured-triple-not-mapped-to-its-images", "detail": format!("worst point {:.3e} m off; {}", w, desc), "data": desc}));
                    }
                }
                other => out.put(json!({"sig": format!("frame3:re-measured-triple-rejected:{}", name(other)), "detail": desc.to_string(), "data": desc})),
            }
            // (and the original triple once more, so that what follows sees the same history as before)
            let _ = build(&p, &q);
        }
        match &o {
            Outcome::Ok(f) => {
                let (dp, dr) = lattice::iso_max_diff(f, &m);
                // near-collinear triples amplify rounding in the normal direction: scale the tolerance by the conditioning
                let tol = if (tri == 4 || tri == 8) { 1e-6 } else { 1e-9 };
                if !(dp <= tol * (1.0 + oracle::norm(&m.t)) * 10.0 && dr <= tol) {
                    out.put(json!({"sig": "frame3:frame-differs-from-generating-motion", "detail": format!("off by {:.3e} m / {:.3e}; {}", dp, dr, desc), "data": desc}));
                }
                if f.improper() > 1e-9 {
                    out.put(json!({"sig": "frame3:improper-rotation", "detail": format!("{:.3e}; {}", f.improper(), desc)}));
                }
                for i in 0..3 {
                    let img = f.apply(&p[i]);
                    let d = oracle::norm(&oracle::sub(&img, &q[i]));
                    if !(d <= 1e-9 * (1.0 + oracle::norm(&q[i])) * 10.0 + if (tri == 4 || tri == 8) { 1e-7 } else { 0.0 }) {
                        out.put(json!({"sig": "frame3:point-not-mapped-to-image", "detail": format!("point {} lands {:.3e} m from its image; {}", i + 1, d, desc), "data": desc}));
                    }
                }
            }
            other => out.put(json!({"sig": format!("frame3:rigid-images-rejected:{}", name(other)), "detail": desc.to_string(), "data": desc})),
        }
        // the same target points listed in another order: congruent only if the mutual distances still correspond
        // (within 5 mm); judged by the distances themselves, 1 mm away from the tolerance on either side
        if id % 2 == 1 {
            for perm in [[0usize, 2, 1], [1, 2, 0], [2, 1, 0]] {
                let qp = [q[perm[0]], q[perm[1]], q[perm[2]]];
                let dd = |a: &[[f64; 3]; 3], i: usize, j: usize| oracle::norm(&oracle::sub(&a[i], &a[j]));
                let worst = [(0, 1), (0, 2), (1, 2)].iter().map(|(i, j)| (dd(&p, *i, *j) - dd(&qp, *i, *j)).abs()).fold(0.0, f64::max);
                let o5 = build(&p, &qp);
                evals += 1;
                if worst > 0.006 && !matches!(o5, Outcome::NotIso) {
                    out.put(json!({"sig": format!("frame3:reordered-incongruent-target-not-rejected:{}", name(&o5)), "detail": format!("order {:?}, distances differ by {:.4} m; {}", perm, worst, desc), "data": desc}));
                }
                if worst < 0.004 {
                    match &o5 {
                        Outcome::Ok(f) => {
                            let w = (0..3).map(|i| oracle::norm(&oracle::sub(&f.apply(&p[i]), &qp[i]))).fold(0.0, f64::max);
                            if f.improper() > 1e-9 || w > worst + 1e-6 { out.put(json!({"sig": "frame3:reordered-congruent-target-not-mapped", "detail": desc.to_string(), "data": desc})); }
                        }
                        other => out.put(json!({"sig": format!("frame3:reordered-congruent-target-rejected:{}", name(other)), "detail": desc.to_string(), "data": desc})),
                    }
                }
            }
        }
        // small rigid motions of the same triple (rotations of 0.1 mrad to 20 mrad about arbitrary axes, shifts of
        // micrometres to centimetres): the frame still maps every point onto its image
        if id % 3 == 0 {
            let ax = [small.gen_range(-1.0..1.0), small.gen_range(-1.0..1.0), small.gen_range(-1.0..1.0f64)];
            let n = oracle::norm(&ax).max(1e-3);
            let ang = 10f64.powf(small.gen_range(-4.0..-1.7));
            let rq = nalgebra::UnitQuaternion::from_axis_angle(&nalgebra::Unit::new_normalize(nalgebra::Vector3::new(ax[0] / n, ax[1] / n, ax[2] / n)), ang);
            let sh = 10f64.powf(small.gen_range(-6.0..-1.5));
            let mo = Iso::from_na(&nalgebra::Isometry3::from_parts(nalgebra::Translation3::new(sh * ax[1], -sh * ax[2], sh * ax[0]), rq));
            // (metres: the lattice points scaled to a 0.1 .. 1 m triangle about its own first point)
            let scale = 0.5 / (1e-9 + oracle::norm(&oracle::sub(&p[1], &p[0])).max(oracle::norm(&oracle::sub(&p[2], &p[0]))));
            let ps: [[f64; 3]; 3] = std::array::from_fn(|i| oracle::add(&p[0], &oracle::scale(scale, &oracle::sub(&p[i], &p[0]))));
            let qs2: [[f64; 3]; 3] = std::array::from_fn(|i| mo.apply(&ps[i]));
            let o6 = build(&ps, &qs2);
            evals += 1;
            match &o6 {
                Outcome::Ok(f) => {
                    let w = (0..3).map(|i| oracle::norm(&oracle::sub(&f.apply(&ps[i]), &qs2[i]))).fold(0.0, f64::max);
                    let tol = if (tri == 4 || tri == 8) { 1e-6 } else { 1e-8 } * (1.0 + oracle::norm(&ps[0]));
                    if f.improper() > 1e-9 || !(w <= tol) {
                        out.put(json!({"sig": "frame3:small-motion-points-not-mapped-to-images", "detail": format!("rotation {:.3e} rad, shift {:.3e} m: worst point {:.3e} m off; {}", ang, sh, w, desc), "data": desc}));
                    }
                }
                other => out.put(json!({"sig": format!("frame3:small-motion-rejected:{}", name(other)), "detail": desc.to_string(), "data": desc})),
            }
        }
        // perturbation families along the edge P1->P3 of the TARGET triple: 3 mm (accepted), 8 mm (rejected)
        let edge = oracle::sub(&q[2], &q[0]);
        let len = oracle::norm(&edge);
        if len > 0.02 && id % 2 == 0 {
            for (d, want_ok) in [(0.003, true), (0.008, false)] {
                let mut q2 = q;
                q2[2] = oracle::add(&q[2], &oracle::scale(d / len, &edge));
                let o2 = build(&p, &q2);
                evals += 1;
                let ok = matches!(o2, Outcome::Ok(_));
                let rejected = matches!(o2, Outcome::NotIso);
                if want_ok && !ok {
                    out.put(json!({"sig": format!("frame3:3mm-stretch-rejected:{}", name(&o2)), "detail": desc.to_string(), "data": desc}));
                }
                if !want_ok && !rejected {
                    out.put(json!({"sig": format!("frame3:8mm-stretch-not-rejected:{}", name(&o2)), "detail": desc.to_string(), "data": desc}));
                }
                if let Outcome::Ok(f) = &o2 {
                    if f.improper() > 1e-9 { out.put(json!({"sig": "frame3:improper-rotation-after-perturbation", "detail": desc.to_string()})); }
                }
            }
            // mirror image of the target triangle (reflection through its own plane keeps it, so reflect through the
            // plane x = q1.x of the world): still congruent, must give a proper motion mapping the points
            let mut qm = q;
            for i in 0..3 { qm[i][0] = 2.0 * q[0][0] - q[i][0]; }
            let o3 = build(&p, &qm);
            evals += 1;
            match &o3 {
                Outcome::Ok(f) => {
                    let worst = (0..3).map(|i| oracle::norm(&oracle::sub(&f.apply(&p[i]), &qm[i]))).fold(0.0, f64::max);
                    if f.improper() > 1e-9 || worst > 1e-6 {
                        out.put(json!({"sig": "frame3:mirrored-target-not-mapped-properly", "detail": format!("improper {:.3e} worst point {:.3e}; {}", f.improper(), worst, desc), "data": desc}));
                    }
                }
                other => out.put(json!({"sig": format!("frame3:mirrored-congruent-triple-rejected:{}", name(other)), "detail": desc.to_string()})),
            }
            // target exactly collinear while the source is 1 mm off a line (congruent within 5 mm): error must name the target
            let a = [0.0, 0.0, 0.0];
            let b = [0.4, 0.0, 0.0];
            let c_src = [0.2, 0.001, 0.0];
            let c_dst = [0.2, 0.0, 0.0];
            let mv = |x: &[f64; 3]| m.apply(x);
            let o4 = build(&[a, b, c_src], &[mv(&a), mv(&b), mv(&c_dst)]);
            evals += 1;
            if !matches!(o4, Outcome::TargetCollinear) {
                // rotated collinear points are collinear only up to rounding: accept Ok when the cross product is not exactly 0
                let w1 = oracle::sub(&mv(&b), &mv(&a));
                let w2 = oracle::sub(&mv(&c_dst), &mv(&a));
                if oracle::norm(&oracle::cross(&w1, &w2)) == 0.0 {
                    out.put(json!({"sig": format!("frame3:collinear-target:{}", name(&o4)), "detail": desc.to_string()}));
                }
            }
        }
        if id == 5 { out.put(json!({"sample": {"p": line["p"], "q": line["q"], "qn": line["qn"], "expected_motion": line["motion"]}})); }
    }
    out.put(json!({"stats": {"lines": lines.len(), "evaluations": evals, "nontrivial": nontrivial}}));
    out.finish();
}

/// forward_transformed events: pose = frame * FK(q); answers realise it, ordered by closeness to previous
pub fn record(output: &str) {
    quiet_panics();
    let mut out = Out::create(output);
    let mut r = rng(1717);
    let n = if thorough() { 20_000 } else { 4_000 };
    let nano = |x: f64| -> i64 { if x.is_finite() { (x * 1e9).round().min(2e9) as i64 } else { 2_000_000_000 } };
    let mut last_q: Joints = [0.0; 6];
    for k in 0..n {
        let mut p = robots::geometry(robots::GEOMETRY_CLASSES[k % robots::GEOMETRY_CLASSES.len()], &mut r);
        p = robots::convention(p, r.gen_range(0..64), ["zero", "quarter", "random"][k % 3], &mut r);
        // the framed robot may itself stand on a (rotated and displaced) base and carry a tool
        // (or be framed already: a frame around a frame)
        let inner_layers = match k % 4 { 1 => solver::stack_for("base", &mut r), 2 => solver::stack_for("base+tool", &mut r), 3 => solver::stack_for("frame", &mut r), _ => vec![] };
        // one robot in five has joint limits that exclude some of the solutions (ranges of +-2 rad around another posture)
        let limits = if k % 5 == 2 {
            let c: Joints = std::array::from_fn(|_| r.gen_range(-1.0..1.0));
            Some((std::array::from_fn(|i| c[i] - 2.0), std::array::from_fn(|i| c[i] + 2.0), 0.0))
        } else { None };
        let mut robot = Robot::new(p, inner_layers, limits);
        // (one framed robot in nine is a robot with shape - tool, base, limits, bodies on every link, an empty cell: its
        //  answers are those of its stack, in the stack's order)
        let mut framed_kin = robot.kin.clone();
        if k % 9 == 5 {
            let case = crate::shape::make_case(&mut r, 2 * k + k % 2, 0, false);
            robot = case.reference;
            framed_kin = Arc::new(case.kws);
        }
        // a small displacement so that the moved pose stays reachable most of the time
        let mut fr = solver::random_iso(&mut r, 0.05);
        if k % 2 == 0 { fr.r = oracle::rot(['x', 'y', 'z'][k % 3], r.gen_range(-0.1..0.1)); }
        let framed = Frame { robot: framed_kin, frame: fr.to_na() };
        let mut q: Joints = std::array::from_fn(|_| r.gen_range(-2.5..2.5));
        // (one call in four passes the very joint vector of the preceding call to another robot and frame)
        if k % 4 == 3 { q = last_q; }
        last_q = q;
        // previous joints: next to the taught point, or - one call in three - somewhere else altogether: another
        // solution of the same pose, wound up by a turn in J4 / J6 (the answers are ordered by closeness to THEM)
        let mut prev: Joints = std::array::from_fn(|i| q[i] + r.gen_range(-0.05..0.05));
        if k % 3 == 1 {
            let others = guarded(|| robot.kin.inverse(&robot.ofk(&q).to_na())).unwrap_or_default();
            if !others.is_empty() { prev = others[r.gen_range(0..others.len())]; }
            prev[3] += 2.0 * std::f64::consts::PI * r.gen_range(-1..=1) as f64;
            prev[5] += 2.0 * std::f64::consts::PI * r.gen_range(-1..=1) as f64;
        }
        // one call in six: some of J1, J4, J6 stand 1e-7 .. 1.5e-4 rad from the +-180 degree seam of the normalised
        // range while the previous vector has them at zero (the home position)
        if k % 6 == 4 {
            for j in [0usize, 3, 5] {
                if r.gen_bool(0.6) {
                    q[j] = (std::f64::consts::PI - 10f64.powf(r.gen_range(-7.0..-3.8))) * if r.gen_bool(0.5) { 1.0 } else { -1.0 };
                    prev[j] = 0.0;
                }
            }
            last_q = q;
        }
        let Some((sols, pose)) = guarded(|| framed.forward_transformed(&q, &prev)) else {
            out.put(json!({"ev": "ftrans", "outcome": "panic"}));
            continue;
        };
        let want = fr.mul(&robot.ofk(&q));
        let got = Iso::from_na(&pose);
        let costs: Vec<i64> = sols.iter().map(|s| (0..6).map(|j| rad2au(s[j]) - rad2au(prev[j])).map(|d: i64| d.abs()).sum()).collect();
        out.put(json!({"ev": "ftrans", "outcome": "ok", "pose_pos_nm": nano(got.dpos(&want)), "pose_rot_nrad": nano(got.drot(&want)),
            "answers": sols.iter().map(|a| solver::answer_facts(&robot, &want, a)).collect::<Vec<_>>(),
            "costs": costs, "prev": au6(&prev), "geom": robots::GEOMETRY_CLASSES[k % robots::GEOMETRY_CLASSES.len()]}));
    }
    out.finish();
}
