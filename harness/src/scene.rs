//! Constructive scene builder: every body (links, tool, base, environment) is a box whose WORLD position at
//! a chosen joint vector is prescribed, so that chosen pairs are at chosen gaps. Brute-force pairwise
//! distances are computed for ALL pairs with parry's distance / intersection_test (no pre-filter, no
//! exemptions, no pair selection).
use nalgebra::{Isometry3, Point3};
use parry3d::shape::TriMesh;
use rs_opw_kinematics::collisions::{BaseBody, CollisionBody, RobotBody, SafetyDistances};
use rs_opw_kinematics::kinematic_traits::{Joints, Kinematics};

pub const TOOL: usize = 100;
pub const BASE: usize = 101;
pub const ENV0: usize = 1000;

/// axis-aligned box in world coordinates
#[derive(Clone, Copy, Debug)]
pub struct WBox {
    pub c: [f64; 3],
    pub h: [f64; 3],
}

/// vertices of a box; `rich` adds a centre vertex on every face (14 vertices, 24 triangles)
pub fn box_vertices(b: &WBox, rich: bool) -> (Vec<[f64; 3]>, Vec<[u32; 3]>) {
    let (c, h) = (b.c, b.h);
    let mut v = Vec::new();
    for dz in [-1.0, 1.0] {
        for dy in [-1.0, 1.0] {
            for dx in [-1.0, 1.0] {
                v.push([c[0] + dx * h[0], c[1] + dy * h[1], c[2] + dz * h[2]]);
            }
        }
    }
    // faces as quads (indices into v): -z, +z, -y, +y, -x, +x
    let quads: [[u32; 4]; 6] = [[0, 1, 3, 2], [4, 5, 7, 6], [0, 1, 5, 4], [2, 3, 7, 6], [0, 2, 6, 4], [1, 3, 7, 5]];
    let mut t = Vec::new();
    for q in quads {
        if rich {
            let m: [f64; 3] = std::array::from_fn(|k| (0..4).map(|i| v[q[i] as usize][k]).sum::<f64>() / 4.0);
            let mi = v.len() as u32;
            v.push(m);
            for i in 0..4 {
                t.push([q[i], q[(i + 1) % 4], mi]);
            }
        } else {
            t.push([q[0], q[1], q[2]]);
            t.push([q[0], q[2], q[3]]);
        }
    }
    (v, t)
}

/// mesh of a world box expressed in the local frame of `pose` (so that pose * mesh = the world box)
pub fn local_mesh(b: &WBox, rich: bool, pose: &Isometry3<f64>) -> TriMesh {
    let (v, t) = box_vertices(b, rich);
    let inv = pose.inverse();
    let pts: Vec<Point3<f32>> = v.iter().map(|p| {
        let q = inv.transform_point(&Point3::new(p[0], p[1], p[2]));
        Point3::new(q.x as f32, q.y as f32, q.z as f32)
    }).collect();
    TriMesh::new(pts, t).expect("box mesh")
}

pub struct Scene {
    pub ids: Vec<usize>,            // body ids present
    pub boxes: Vec<WBox>,           // world box of each body at q0
    pub rich: Vec<bool>,
    /// Some((a, b, gap)): body a's box is aligned with ITS OWN frame (tight local bounding box, centred where its
    /// world box is) and the small body b hovers `gap` above its +y face (in a's frame)
    /// (the fourth entry: 0 = as described; 1 = b sits off a CORNER of a, `gap` away along each of the three axes of
    ///  a's frame - nearer than `gap * sqrt(3)` it cannot be; 2 = a is a flat plate (a quad of two or four triangles in
    ///  its own x-z plane, no thickness) and b hovers `gap` above it)
    pub aligned_pair: Option<(usize, usize, f64, u8)>,
}

impl Scene {
    /// bodies far apart on a line (5 m spacing), every box 0.2 m cube
    pub fn spread(tool: bool, base: bool, nenv: usize) -> Scene {
        let mut ids: Vec<usize> = (0..6).collect();
        if tool { ids.push(TOOL); }
        if base { ids.push(BASE); }
        for k in 0..nenv { ids.push(ENV0 + k); }
        let boxes = ids.iter().enumerate().map(|(i, _)| WBox { c: [5.0 * i as f64, 0.0, 0.0], h: [0.1, 0.1, 0.1] }).collect();
        let rich = ids.iter().map(|_| false).collect();
        Scene { ids, boxes, rich, aligned_pair: None }
    }
    pub fn idx(&self, id: usize) -> usize { self.ids.iter().position(|x| *x == id).expect("body present") }
    /// put body b next to body a along +y with the given gap (negative: overlapping)
    /// like `place_next`, but the bodies face each other only near a corner of `a`: `b` is shifted sideways so that the
    /// projections overlap by 30 % of the smaller extent in x and z (the distance is still `gap`, along y)
    pub fn place_at_corner(&mut self, a: usize, b: usize, gap: f64, sx: f64, sz: f64) {
        let (ia, ib) = (self.idx(a), self.idx(b));
        let ba = self.boxes[ia];
        let hb = self.boxes[ib].h;
        let ox = 0.3 * ba.h[0].min(hb[0]);
        let oz = 0.3 * ba.h[2].min(hb[2]);
        self.boxes[ib].c = [ba.c[0] + sx * (ba.h[0] + hb[0] - 2.0 * ox), ba.c[1] + ba.h[1] + gap + hb[1], ba.c[2] + sz * (ba.h[2] + hb[2] - 2.0 * oz)];
    }
    pub fn place_next(&mut self, a: usize, b: usize, gap: f64) {
        let (ia, ib) = (self.idx(a), self.idx(b));
        let ba = self.boxes[ia];
        let hb = self.boxes[ib].h;
        self.boxes[ib].c = [ba.c[0], ba.c[1] + ba.h[1] + gap + hb[1], ba.c[2]];
    }
}

pub struct Built {
    pub body: RobotBody,
    /// world pose (f32) and mesh reference order: same as scene.ids
    pub env_poses: Vec<Isometry3<f32>>,
}

/// Build the RobotBody so that at joint vector q0 (poses from `kin`) every body sits in its world box.
/// mesh of a box given directly in the body's own frame (tight local bounding box)
fn aligned_mesh(c_local: [f64; 3], h: [f64; 3], rich: bool, flat: bool) -> TriMesh {
    if flat {
        let c = c_local;
        let mut v = vec![[c[0] - h[0], c[1], c[2] - h[2]], [c[0] + h[0], c[1], c[2] - h[2]], [c[0] + h[0], c[1], c[2] + h[2]], [c[0] - h[0], c[1], c[2] + h[2]]];
        let t: Vec<[u32; 3]> = if rich { v.push(c); vec![[0, 1, 4], [1, 2, 4], [2, 3, 4], [3, 0, 4]] } else { vec![[0, 1, 2], [0, 2, 3]] };
        return TriMesh::new(v.iter().map(|p| Point3::new(p[0] as f32, p[1] as f32, p[2] as f32)).collect(), t).expect("plate mesh");
    }
    let (v, t) = box_vertices(&WBox { c: c_local, h }, rich);
    TriMesh::new(v.iter().map(|p| Point3::new(p[0] as f32, p[1] as f32, p[2] as f32)).collect(), t).expect("box mesh")
}

pub fn build(scene: &Scene, kin: &dyn Kinematics, q0: &Joints, base_pose: &Isometry3<f64>, safety: SafetyDistances) -> RobotBody {
    let poses = kin.forward_with_joint_poses(q0);
    // environment objects get a non-trivial own pose as well (every third one stands as it was modelled: identity)
    let env_pose = |k: usize| -> Isometry3<f64> {
        if k % 3 == 2 { Isometry3::identity() } else { Isometry3::new(nalgebra::Vector3::new(0.3 * k as f64, -0.2, 0.1), nalgebra::Vector3::new(0.0, 0.0, 0.4 * (k as f64 + 1.0))) }
    };
    let pose_of = |id: usize| -> Option<Isometry3<f64>> { if id < 6 { Some(poses[id]) } else if id == TOOL { Some(poses[5]) } else if id == BASE { Some(*base_pose) } else { Some(env_pose(id - ENV0)) } };
    // the aligned pair (if any and if body a is part of the robot): a's mesh directly in its frame, b placed above it
    let mut override_mesh: Vec<(usize, TriMesh)> = Vec::new();
    let mut boxes = scene.boxes.clone();
    if let Some((a, b, gap, how)) = scene.aligned_pair {
        if let Some(pa) = pose_of(a) {
            let (ia, ib) = (scene.idx(a), scene.idx(b));
            let wc = boxes[ia].c;
            let cl = pa.inverse().transform_point(&Point3::new(wc[0], wc[1], wc[2]));
            let mut h = boxes[ia].h;
            if how == 2 { h[1] = 0.0; }
            override_mesh.push((a, aligned_mesh([cl.x, cl.y, cl.z], h, scene.rich[ia], how == 2)));
            let hb = boxes[ib].h;
            let reach = (hb[0] * hb[0] + hb[1] * hb[1] + hb[2] * hb[2]).sqrt();
            let at = if how == 1 { Point3::new(cl.x + h[0] + gap + reach, cl.y + h[1] + gap + reach, cl.z + h[2] + gap + reach) } else { Point3::new(cl.x, cl.y + h[1] + gap + reach, cl.z) };
            let above = pa.transform_point(&at);
            boxes[ib].c = [above.x, above.y, above.z];
        }
    }
    let mesh_for = |id: usize, pose: &Isometry3<f64>| -> TriMesh {
        if let Some((_, m)) = override_mesh.iter().find(|(x, _)| *x == id) { return m.clone(); }
        let k = scene.idx(id);
        local_mesh(&boxes[k], scene.rich[k], pose)
    };
    let joint_meshes: [TriMesh; 6] = std::array::from_fn(|i| mesh_for(i, &poses[i]));
    let tool = if scene.ids.contains(&TOOL) { Some(mesh_for(TOOL, &poses[5])) } else { None };
    let base = if scene.ids.contains(&BASE) {
        Some(BaseBody { mesh: mesh_for(BASE, base_pose), base_pose: base_pose.cast() })
    } else { None };
    let mut env = Vec::new();
    let mut k = 0;
    while scene.ids.contains(&(ENV0 + k)) {
        let i = scene.idx(ENV0 + k);
        let pose = env_pose(k);
        env.push(CollisionBody { mesh: local_mesh(&boxes[i], scene.rich[i], &pose), pose: pose.cast() });
        k += 1;
    }
    RobotBody { joint_meshes, tool, base, collision_environment: env, safety }
}

/// (id, mesh, world pose) of every body at joint vector q
pub fn placed<'a>(body: &'a RobotBody, kin: &dyn Kinematics, q: &Joints) -> Vec<(usize, &'a TriMesh, Isometry3<f32>)> {
    let poses = kin.forward_with_joint_poses(q).map(|p| p.cast::<f32>());
    let mut v: Vec<(usize, &TriMesh, Isometry3<f32>)> = (0..6).map(|i| (i, &body.joint_meshes[i], poses[i])).collect();
    if let Some(t) = &body.tool { v.push((TOOL, t, poses[5])); }
    if let Some(b) = &body.base { v.push((BASE, &b.mesh, b.base_pose)); }
    for (k, e) in body.collision_environment.iter().enumerate() { v.push((ENV0 + k, &e.mesh, e.pose)); }
    v
}

/// brute force: distance (um) and intersection of every unordered pair of bodies
pub fn brute(body: &RobotBody, kin: &dyn Kinematics, q: &Joints) -> Vec<(usize, usize, i64, bool)> {
    let p = placed(body, kin, q);
    let mut out = Vec::new();
    for i in 0..p.len() {
        for j in (i + 1)..p.len() {
            let d = parry3d::query::distance(&p[i].2, p[i].1, &p[j].2, p[j].1).expect("distance");
            let t = parry3d::query::intersection_test(&p[i].2, p[i].1, &p[j].2, p[j].1).expect("intersection");
            let (a, b) = if p[i].0 < p[j].0 { (p[i].0, p[j].0) } else { (p[j].0, p[i].0) };
            out.push((a, b, (d as f64 * 1e6).round() as i64, t));
        }
    }
    out
}
