//! opwv: conformance harness binding the TLA+ specification in /verif/spec to rs-opw-kinematics.
//!
//!   opwv replay <generator> <in.ndjson> <out.ndjson>   spec -> impl (B1)
//!   opwv record <what> <out.ndjson>                    impl -> spec (B2 / B3)
mod chain;
mod collide;
mod frame3;
mod jac;
mod lattice;
mod limits;
mod oracle;
mod pgram;
mod robots;
mod rrt;
mod scene;
mod shape;
mod singular;
mod solver;
mod stack;
mod stroke;
mod urdfx;
mod util;
mod yaml;

fn main() {
    let args: Vec<String> = std::env::args().collect();
    util::start_stall_monitor();
    if args.len() < 3 {
        eprintln!("usage: opwv replay <gen> <in> <out> | opwv record <what> <out>");
        std::process::exit(2);
    }
    match (args[1].as_str(), args[2].as_str()) {
        ("replay", "limits") => limits::replay(&args[3], &args[4]),
        ("record", "limits") => limits::record_limits(&args[3]),
        ("record", "session") => limits::record_session(&args[3]),
        ("record", "samples") => limits::record_samples(&args[3]),
        ("replay", "chain") => chain::replay(&args[3], &args[4]),
        ("replay", "chainedge") => chain::replay_edge(&args[3], &args[4]),
        ("replay", "chainik") => chain::replay_ik(&args[3], &args[4]),
        ("record", "fk") => chain::record(&args[3]),
        ("replay", "stack") => stack::replay(&args[3], &args[4]),
        ("replay", "singular") => singular::replay(&args[3], &args[4], &args[5]),
        ("record", "cont") => singular::record_cont(&args[3]),
        ("replay", "pgram") => pgram::replay(&args[3], &args[4]),
        ("replay", "jac") => jac::replay(&args[3], &args[4]),
        ("record", "jac") => jac::record(&args[3]),
        ("replay", "frame3") => frame3::replay(&args[3], &args[4]),
        ("record", "ftrans") => frame3::record(&args[3]),
        ("replay", "tasks") => collide::replay_tasks(&args[3], &args[4]),
        ("record", "collision") => collide::record_geometry(&args[3]),
        ("record", "offsets") => collide::record_offsets(&args[3]),
        ("record", "shape") => shape::record(&args[3]),
        ("replay", "yaml") => yaml::replay(&args[3], &args[4]),
        ("replay", "urdf") => urdfx::replay(&args[3], &args[4]),
        ("replay", "rrt") => rrt::replay(&args[3], &args[4]),
        ("record", "rrtplan") => rrt::record(&args[3]),
        ("replay", "wrapsampling") => rrt::replay_wrap_sampling(&args[3]),
        ("record", "stroke") => stroke::record(&args[3]),
        ("record", "ik") => solver::record(&args[3], &args[4]),
        ("record", "follow") => solver::record_follow(&args[3]),
        ("debug", "ik") => solver::debug_ik(&args[3], &args[4], args.get(5).map(|s| s.as_str())),
        _ => {
            eprintln!("unknown command {:?}", &args[1..]);
            std::process::exit(2);
        }
    }
}
