//! Independent float reference of the OPW link model. Nothing here calls the functions it judges:
//! plain f64 arrays, own rotations, own chain product. The reference itself is conformance-checked
//! against the exact TLA+ model (Gen_Chain) by `chain::replay`.
use nalgebra::Isometry3;
use rs_opw_kinematics::parameters::opw_kinematics::Parameters;

pub type V3 = [f64; 3];
pub type M3 = [[f64; 3]; 3];

#[derive(Clone, Copy, Debug)]
pub struct Iso {
    pub r: M3,
    pub t: V3,
}

pub const I3: M3 = [[1.0, 0.0, 0.0], [0.0, 1.0, 0.0], [0.0, 0.0, 1.0]];

pub fn mat_mul(a: &M3, b: &M3) -> M3 {
    let mut c = [[0.0; 3]; 3];
    for i in 0..3 {
        for j in 0..3 {
            c[i][j] = a[i][0] * b[0][j] + a[i][1] * b[1][j] + a[i][2] * b[2][j];
        }
    }
    c
}

pub fn mat_vec(a: &M3, v: &V3) -> V3 {
    [
        a[0][0] * v[0] + a[0][1] * v[1] + a[0][2] * v[2],
        a[1][0] * v[0] + a[1][1] * v[1] + a[1][2] * v[2],
        a[2][0] * v[0] + a[2][1] * v[1] + a[2][2] * v[2],
    ]
}

pub fn transpose(a: &M3) -> M3 {
    let mut c = [[0.0; 3]; 3];
    for i in 0..3 {
        for j in 0..3 {
            c[i][j] = a[j][i];
        }
    }
    c
}

pub fn add(a: &V3, b: &V3) -> V3 { [a[0] + b[0], a[1] + b[1], a[2] + b[2]] }
pub fn sub(a: &V3, b: &V3) -> V3 { [a[0] - b[0], a[1] - b[1], a[2] - b[2]] }
pub fn scale(k: f64, a: &V3) -> V3 { [k * a[0], k * a[1], k * a[2]] }
pub fn dot(a: &V3, b: &V3) -> f64 { a[0] * b[0] + a[1] * b[1] + a[2] * b[2] }
pub fn cross(a: &V3, b: &V3) -> V3 {
    [a[1] * b[2] - a[2] * b[1], a[2] * b[0] - a[0] * b[2], a[0] * b[1] - a[1] * b[0]]
}
pub fn norm(a: &V3) -> f64 { dot(a, a).sqrt() }
pub fn col(a: &M3, j: usize) -> V3 { [a[0][j], a[1][j], a[2][j]] }
pub fn det(a: &M3) -> f64 { dot(&a[0], &cross(&a[1], &a[2])) }

pub fn rot(axis: char, angle: f64) -> M3 {
    let (s, c) = angle.sin_cos();
    match axis {
        'x' => [[1.0, 0.0, 0.0], [0.0, c, -s], [0.0, s, c]],
        'y' => [[c, 0.0, s], [0.0, 1.0, 0.0], [-s, 0.0, c]],
        _ => [[c, -s, 0.0], [s, c, 0.0], [0.0, 0.0, 1.0]],
    }
}

impl Iso {
    pub fn identity() -> Iso { Iso { r: I3, t: [0.0; 3] } }
    pub fn mul(&self, o: &Iso) -> Iso {
        Iso { r: mat_mul(&self.r, &o.r), t: add(&mat_vec(&self.r, &o.t), &self.t) }
    }
    pub fn inv(&self) -> Iso {
        let rt = transpose(&self.r);
        Iso { r: rt, t: scale(-1.0, &mat_vec(&rt, &self.t)) }
    }
    pub fn step(t: V3, axis: char, angle: f64) -> Iso { Iso { r: rot(axis, angle), t } }
    pub fn apply(&self, p: &V3) -> V3 { add(&mat_vec(&self.r, p), &self.t) }
    pub fn from_na(p: &Isometry3<f64>) -> Iso {
        let m = p.rotation.to_rotation_matrix();
        let m = m.matrix();
        let mut r = [[0.0; 3]; 3];
        for i in 0..3 {
            for j in 0..3 {
                r[i][j] = m[(i, j)];
            }
        }
        Iso { r, t: [p.translation.x, p.translation.y, p.translation.z] }
    }
    pub fn to_na(&self) -> Isometry3<f64> {
        let m = nalgebra::Matrix3::new(
            self.r[0][0], self.r[0][1], self.r[0][2], self.r[1][0], self.r[1][1], self.r[1][2], self.r[2][0], self.r[2][1], self.r[2][2],
        );
        let rot = nalgebra::Rotation3::from_matrix_unchecked(m);
        Isometry3::from_parts(
            nalgebra::Translation3::new(self.t[0], self.t[1], self.t[2]),
            nalgebra::UnitQuaternion::from_rotation_matrix(&rot),
        )
    }
    /// translation distance
    pub fn dpos(&self, o: &Iso) -> f64 { norm(&sub(&self.t, &o.t)) }
    /// rotation angle between the two orientations (radians), from the trace of R1^T R2
    pub fn drot(&self, o: &Iso) -> f64 {
        let d = mat_mul(&transpose(&self.r), &o.r);
        // use the antisymmetric part for small angles (accurate), trace for large
        let s = 0.5 * ((d[2][1] - d[1][2]).powi(2) + (d[0][2] - d[2][0]).powi(2) + (d[1][0] - d[0][1]).powi(2)).sqrt();
        let c = 0.5 * (d[0][0] + d[1][1] + d[2][2] - 1.0);
        s.atan2(c)
    }
    /// angle between the z axes (tool axis) of the two orientations
    pub fn daxis(&self, o: &Iso) -> f64 {
        let a = col(&self.r, 2);
        let b = col(&o.r, 2);
        norm(&cross(&a, &b)).atan2(dot(&a, &b))
    }
    /// largest deviation of R from a proper rotation (R R^T = I, det = 1)
    pub fn improper(&self) -> f64 {
        let p = mat_mul(&self.r, &transpose(&self.r));
        let mut e: f64 = (det(&self.r) - 1.0).abs();
        for i in 0..3 {
            for j in 0..3 {
                e = e.max((p[i][j] - if i == j { 1.0 } else { 0.0 }).abs());
            }
        }
        e
    }
}

pub const AXES: [char; 6] = ['z', 'y', 'y', 'z', 'y', 'z'];

pub fn link_offsets(p: &Parameters) -> [V3; 6] {
    [[0.0, 0.0, p.c1], [p.a1, p.b, 0.0], [0.0, 0.0, p.c2], [p.a2, 0.0, 0.0], [0.0, 0.0, p.c3], [0.0, 0.0, p.c4]]
}

/// effective joint angles: what the OPW model sees after sign corrections and offsets
pub fn effective(p: &Parameters, q: &[f64; 6]) -> [f64; 6] {
    std::array::from_fn(|i| q[i] * p.sign_corrections[i] as f64 - p.offsets[i])
}

/// The six link poses as the product of elementary joint transforms.
pub fn chain(p: &Parameters, q: &[f64; 6]) -> [Iso; 6] {
    let e = effective(p, q);
    let offs = link_offsets(p);
    let mut out = [Iso::identity(); 6];
    let mut cur = Iso::identity();
    for i in 0..6 {
        cur = cur.mul(&Iso::step(offs[i], AXES[i], e[i]));
        out[i] = cur;
    }
    out
}

pub fn fk(p: &Parameters, q: &[f64; 6]) -> Iso { chain(p, q)[5] }

/// world axis of joint i (0-based) and origin of link i
pub fn axis_world(link: &Iso, i: usize) -> V3 {
    match AXES[i] { 'z' => col(&link.r, 2), 'y' => col(&link.r, 1), _ => col(&link.r, 0) }
}

/// Geometric Jacobian (6x6, rows vx vy vz wx wy wz) of a tool point `tcp` (world) for the chain,
/// including the robot's sign corrections (d effective / d q = sign).
pub fn geometric_jacobian(p: &Parameters, q: &[f64; 6], tcp_local: &Iso, base: &Iso) -> [[f64; 6]; 6] {
    let links = chain(p, q);
    let flange = base.mul(&links[5]).mul(tcp_local);
    let mut j = [[0.0; 6]; 6];
    for i in 0..6 {
        let li = base.mul(&links[i]);
        let z = scale(p.sign_corrections[i] as f64, &axis_world(&li, i));
        let lever = sub(&flange.t, &li.t);
        let v = cross(&z, &lever);
        for r in 0..3 {
            j[r][i] = v[r];
            j[r + 3][i] = z[r];
        }
    }
    j
}
