//! Robot parameter sets used by the drivers: named classes, sign/offset conventions.
use crate::util::*;
use rand::rngs::StdRng;
use rand::Rng;
use rs_opw_kinematics::parameters::opw_kinematics::Parameters;

pub fn params(a1: f64, a2: f64, b: f64, c1: f64, c2: f64, c3: f64, c4: f64) -> Parameters {
    Parameters { a1, a2, b, c1, c2, c3, c4, offsets: [0.0; 6], sign_corrections: [1; 6], dof: 6 }
}

/// sign pattern k in 0..64 -> six signs (bit set = -1)
pub fn signs(k: usize) -> [i8; 6] {
    std::array::from_fn(|i| if (k >> i) & 1 == 1 { -1 } else { 1 })
}

/// geometry classes named in C01's quantifier
pub const GEOMETRY_CLASSES: [&str; 10] = ["plain", "b-nonzero", "a2-positive", "a2-negative", "a1-negative", "a1-zero", "offsets-only", "c4-zero", "c1-zero", "c3-negative"];
/// classes used for forward kinematics only (a forearm of zero length leaves the elbow angle undefined)
pub const FK_ONLY_CLASSES: [&str; 2] = ["a2-c3-zero", "a2-c3-zero"];

pub fn geometry(class: &str, r: &mut StdRng) -> Parameters {
    let l = |r: &mut StdRng, lo: f64, hi: f64| r.gen_range(lo..hi);
    let mut p = params(l(r, 0.05, 0.4), 0.0, 0.0, l(r, 0.3, 0.7), l(r, 0.4, 0.9), l(r, 0.4, 0.9), l(r, 0.05, 0.2));
    match class {
        "b-nonzero" => { p.b = l(r, 0.02, 0.2) * if r.gen_bool(0.5) { 1.0 } else { -1.0 }; p.a2 = l(r, -0.1, 0.1); }
        "a2-positive" => { p.a2 = l(r, 0.02, 0.2); if r.gen_bool(0.5) { p.b = l(r, -0.15, 0.15); } }
        "a2-negative" => { p.a2 = -l(r, 0.02, 0.2); if r.gen_bool(0.5) { p.b = l(r, -0.15, 0.15); } }
        "a1-negative" => { p.a1 = -l(r, 0.05, 0.3); p.a2 = -l(r, 0.0, 0.1); if r.gen_bool(0.5) { p.b = l(r, -0.15, 0.15); } }
        "a1-zero" => { p.a1 = 0.0; p.a2 = l(r, -0.1, 0.1); }
        "c4-zero" => { p.c4 = 0.0; p.a2 = l(r, -0.1, 0.1); if r.gen_bool(0.5) { p.b = l(r, -0.1, 0.1); } }
        "c1-zero" => { p.c1 = 0.0; p.b = l(r, -0.15, 0.15); }
        "c3-negative" => { p.c3 = -l(r, 0.3, 0.8); p.a2 = l(r, -0.1, 0.1); }
        "a2-c3-zero" => { p.c3 = 0.0; p.a2 = 0.0; }
        _ => {}
    }
    p
}

/// apply a sign pattern and an offset class
pub fn convention(mut p: Parameters, sign_pattern: usize, offset_class: &str, r: &mut StdRng) -> Parameters {
    p.sign_corrections = signs(sign_pattern);
    p.offsets = match offset_class {
        "zero" => [0.0; 6],
        "quarter" => std::array::from_fn(|_| (r.gen_range(-2..=2) as f64) * std::f64::consts::FRAC_PI_2),
        // arbitrary offsets: mostly inside a half turn, one set in four well beyond it (up to a bit more than a turn)
        _ => { let span = if r.gen_bool(0.25) { 7.0 } else { 3.0 }; std::array::from_fn(|_| r.gen_range(-span..span)) }
    };
    p
}

/// A second robot that shares part of the description of `p`: every geometric parameter is kept or
/// re-drawn with equal probability (one in three siblings keeps the whole geometry), the sign/offset
/// convention is re-drawn. Used to interleave calls of related robots on one thread.
pub fn sibling(p: &Parameters, r: &mut StdRng) -> Parameters {
    let fresh = geometry(GEOMETRY_CLASSES[r.gen_range(0..GEOMETRY_CLASSES.len())], r);
    let mut s = *p;
    if !r.gen_bool(0.34) {
        // (each length: kept; re-drawn; a calibrated value, 0.05 .. 0.9 mm off the nominal one; or - a1, a2, b - the
        //  mirror image)
        let scale = [p.c2.abs(), p.c3.abs()].iter().cloned().fold(0.0, f64::max).max(1e-9) / 0.65;
        let mut pick = |old: f64, new: f64, may_flip: bool, r: &mut StdRng| -> f64 {
            match r.gen_range(0..8) {
                0 | 1 | 2 => new,
                3 => old + r.gen_range(0.05e-3..0.9e-3) * scale * if r.gen_bool(0.5) { 1.0 } else { -1.0 },
                4 if may_flip => -old,
                _ => old,
            }
        };
        s.a1 = pick(s.a1, fresh.a1, true, r);
        s.a2 = pick(s.a2, fresh.a2, true, r);
        s.b = pick(s.b, fresh.b, true, r);
        s.c1 = pick(s.c1, fresh.c1, false, r);
        s.c2 = pick(s.c2, fresh.c2, false, r);
        s.c3 = pick(s.c3, fresh.c3, false, r);
        s.c4 = pick(s.c4, fresh.c4, false, r);
        // (one sibling in twelve has forearm offset and length exchanged: the same a2^2 + c3^2)
        if r.gen_bool(0.08) && s.a2 != 0.0 { std::mem::swap(&mut s.a2, &mut s.c3); }
    }
    let keep6 = (s.sign_corrections[5], s.offsets[5]);
    s = convention(s, r.gen_range(0..64), ["zero", "quarter", "random"][r.gen_range(0..3)], r);
    if p.dof == 5 { s.sign_corrections[5] = keep6.0; s.offsets[5] = keep6.1; }
    s
}

pub fn named_robots() -> Vec<(&'static str, Parameters)> {
    vec![
        ("irb2400_10", Parameters::irb2400_10()),
        ("kuka_kr6_r700_sixx", Parameters::kuka_kr6_r700_sixx()),
        ("staubli_tx2_160l", Parameters::staubli_tx2_160l()),
        ("fanuc_r2000ib_200r", Parameters::fanuc_r2000ib_200r()),
        ("staubli_rx160", Parameters::staubli_rx160()),
        ("igus_rebel", Parameters::igus_rebel()),
        ("irb2600_12_165", Parameters::irb2600_12_165()),
        ("irb4600_60_205", Parameters::irb4600_60_205()),
        ("staubli_tx40", Parameters::staubli_tx40()),
        ("staubli_tx2_140", Parameters::staubli_tx2_140()),
        ("staubli_tx2_160", Parameters::staubli_tx2_160()),
    ]
}

pub fn params_json(p: &Parameters) -> serde_json::Value {
    serde_json::json!({"a1": p.a1, "a2": p.a2, "b": p.b, "c1": p.c1, "c2": p.c2, "c3": p.c3, "c4": p.c4,
        "offsets": p.offsets, "signs": p.sign_corrections, "dof": p.dof})
}

#[allow(dead_code)]
pub fn random_joints(r: &mut StdRng, span: f64) -> [f64; 6] {
    std::array::from_fn(|_| r.gen_range(-span..span))
}

#[allow(dead_code)]
pub fn au_joints(q: &[f64; 6]) -> Vec<i64> { au6(q) }
