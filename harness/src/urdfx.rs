//! C20: URDF extraction. B1 replay of the Gen_Urdf layout/syntax lattice: render a robot description
//! from OPW parameters, extract, compare; fault variants must yield Err (never a panic).
use crate::oracle;
use crate::util::*;
use rand::seq::SliceRandom;
use rand::Rng;
use rs_opw_kinematics::constraints::BY_PREV;
use rs_opw_kinematics::kinematic_traits::{Joints, Kinematics};
use rs_opw_kinematics::urdf::from_urdf;
use serde_json::{json, Value};
use std::collections::HashMap;

struct Spec {
    vals: HashMap<&'static str, f64>,
    signs: [i8; 6],
    from: [f64; 6],
    to: [f64; 6],
    limit_text: Vec<Option<(String, String)>>,
}

fn r3(x: f64) -> f64 { (x * 1000.0).round() / 1000.0 }

fn make_spec(line: &Value, r: &mut rand::rngs::StdRng) -> Spec {
    let mut vals: HashMap<&'static str, f64> = HashMap::new();
    vals.insert("0", 0.0);
    vals.insert("c1", r3(r.gen_range(0.2..0.8)));
    vals.insert("a1", if r.gen_bool(0.15) { 0.0 } else { r3(r.gen_range(-0.3..0.4)) });
    vals.insert("c2", r3(r.gen_range(0.3..0.9)));
    vals.insert("c3", r3(r.gen_range(0.3..0.9)));
    vals.insert("c4", if r.gen_bool(0.1) { 0.0 } else { r3(r.gen_range(0.05..0.3)) });
    let needs_a2 = line["needs_a2"].as_bool().unwrap();
    // (offsets of a few millimetres next to links of most of a metre occur as well: three in ten are 1 .. 20 mm)
    let small = |r: &mut rand::rngs::StdRng, lo: f64, hi: f64| if r.gen_bool(0.3) { r3(10f64.powf(r.gen_range(-3.0..-1.7))).max(0.001) } else { r3(r.gen_range(lo..hi)) };
    let ma2 = if !needs_a2 && r.gen_bool(0.2) { 0.0 } else { let v = small(r, 0.02, 0.25); if r.gen_bool(0.5) { v } else { -v } };
    vals.insert("-a2", ma2);
    vals.insert("b", { let v = small(r, 0.02, 0.2); if r.gen_bool(0.5) { v } else { -v } });
    let signs: [i8; 6] = std::array::from_fn(|_| if r.gen_bool(0.5) { 1 } else { -1 });
    let mut from = [0.0; 6];
    let mut to = [0.0; 6];
    let mut limit_text = Vec::new();
    for j in 0..6 {
        let syn = match line["limits"].as_str().unwrap() { "mixed" => ["radians", "xacro-degrees", "absent"][(j + r.gen_range(0..3)) % 3], s => s };
        match syn {
            "radians" => {
                let lo = (r.gen_range(-3.3..-0.5f64) * 100.0).round() / 100.0;
                let hi = (r.gen_range(0.5..3.3f64) * 100.0).round() / 100.0;
                from[j] = lo; to[j] = hi;
                limit_text.push(Some((format!("{}", lo), format!("{}", hi))));
            }
            "xacro-degrees" => {
                let lo = r.gen_range(-350..-20) as f64 + if r.gen_bool(0.3) { 0.5 } else { 0.0 };
                let hi = r.gen_range(20..350) as f64;
                from[j] = lo.to_radians(); to[j] = hi.to_radians();
                limit_text.push(Some((format!("${{radians({})}}", lo), format!("${{radians({})}}", hi))));
            }
            _ => limit_text.push(None),
        }
    }
    Spec { vals, signs, from, to, limit_text }
}

fn joint_names(naming: &str, tag: &str) -> [String; 6] {
    std::array::from_fn(|i| match naming {
        "plain" => format!("joint{}", i + 1),
        "prefix-upper" => format!("${{prefix}}JOINT_{}", i + 1),
        "underscore" => format!("joint_{}", i + 1),
        "kuka-a" => format!("${{prefix}}joint_a{}", i + 1),
        "literal-prefix-a" => format!("left_arm_joint_a{}", i + 1),      // a literal prefix that contains the tag letter
        "literal-prefix" => format!("leftJOINT_{}!", i + 1),            // the form used in the crate's own unit test
        // a prefix with capital letters whose lower-case forms are longer in UTF-8 (U+0130: two bytes, three in lower case)
        "unicode-prefix" => format!("\u{0130}\u{0130}_Arm_joint_{}", i + 1),
        // every joint of the description decorated in its own way (each name is simplified on its own)
        "mixed" => match i { 0 => "joint1".to_string(), 1 => "${prefix}JOINT_2".to_string(), 2 => "joint_3".to_string(), 3 => "${prefix}joint_a4".to_string(), 4 => "left_arm_joint_a5".to_string(), _ => "leftJOINT_6!".to_string() },
        _ => format!("{}_axis_{}", tag, i),
    })
}

const AXES: [usize; 6] = [2, 1, 1, 0, 1, 0]; // natural axis component of each joint in the URDF convention used by the test data

fn joint_xml(name: &str, xyz: [f64; 3], axis: usize, sign: i8, limit: &Option<(String, String)>, k: usize) -> String {
    let mut ax = ["0", "0", "0"];
    ax[axis] = if sign < 0 { "-1" } else { "1" };
    let lim = match limit { Some((lo, hi)) => format!("      <limit lower=\"{}\" upper=\"{}\" effort=\"0\" velocity=\"3.67\"/>\n", lo, hi), None => String::new() };
    format!("    <joint name=\"{}\" type=\"revolute\">\n      <origin xyz=\"{} {} {}\" rpy=\"0 0 0\"/>\n      <parent link=\"link_{}\"/>\n      <child link=\"link_{}\"/>\n      <axis xyz=\"{} {} {}\"/>\n{}    </joint>\n",
        name, xyz[0], xyz[1], xyz[2], k, k + 1, ax[0], ax[1], ax[2], lim)
}

fn render(line: &Value, sp: &Spec, r: &mut rand::rngs::StdRng) -> (String, Option<[String; 6]>) {
    let naming = line["naming"].as_str().unwrap();
    let names = joint_names(naming, "lf");
    let mut joints: Vec<String> = (0..6).map(|j| {
        let o = &line["origins"][j];
        let xyz: [f64; 3] = std::array::from_fn(|k| sp.vals[o[k].as_str().unwrap()]);
        joint_xml(&names[j], xyz, AXES[j], sp.signs[j], &sp.limit_text[j], j)
    }).collect();
    match line["order"].as_str().unwrap() { "reversed" => joints.reverse(), "shuffled" => joints.shuffle(r), _ => {} }
    let mut body = String::new();
    body.push_str("    <link name=\"link_0\"/>\n");
    // fixed helper joints as in the bundled robot descriptions
    body.push_str("    <joint name=\"base_link-base\" type=\"fixed\">\n      <origin xyz=\"0 0 0.33\" rpy=\"0 0 0\"/>\n      <parent link=\"link_0\"/>\n      <child link=\"base\"/>\n    </joint>\n");
    for j in &joints { body.push_str(j); }
    let flange = if naming == "explicit" { "lf_flange".to_string() } else { format!("{}-flange", names[5]) };
    body.push_str(&format!("    <joint name=\"{}\" type=\"fixed\">\n      <origin xyz=\"0 0 0\" rpy=\"0 0 0\"/>\n      <parent link=\"link_6\"/>\n      <child link=\"flange\"/>\n    </joint>\n", flange));
    match line["copies"].as_str().unwrap() {
        "identical-duplicate" => { for j in &joints { body.push_str(j); } }
        // the same robot a second time under another name prefix (a left and a right arm from one macro); with an
        // explicit name list the copy keeps the names (the list would not tell the two apart otherwise)
        "duplicate-other-prefix" => {
            for j in &joints { body.push_str(&if naming == "explicit" { j.clone() } else { j.replacen("<joint name=\"", "<joint name=\"r2_", 1) }); }
        }
        "second-robot" => {
            let other = joint_names("explicit", "rt");
            for j in 0..6 {
                body.push_str(&joint_xml(&other[j], [0.11 * (j + 1) as f64, 0.0, 0.0], AXES[j], 1, &Some(("-1".into(), "1".into())), j + 10));
            }
        }
        _ => {}
    }
    let mut text = body;
    for d in 0..line["nesting"].as_u64().unwrap() {
        text = if d == 0 { format!("  <xacro:macro name=\"robot_macro\" params=\"prefix\">\n{}  </xacro:macro>\n", text) } else { format!("  <group name=\"g{}\">\n{}  </group>\n", d, text) };
    }
    let xml = format!("<?xml version=\"1.0\"?>\n<robot name=\"generated\" xmlns:xacro=\"http://ros.org/wiki/xacro\">\n{}</robot>\n", text);
    let explicit = if naming == "explicit" { Some(joint_names("explicit", "lf")) } else { None };
    (xml, explicit)
}

enum Got { Ok(rs_opw_kinematics::urdf::URDFParameters), Err(String), Panic }

fn extract(xml: &str, names: &Option<[String; 6]>) -> Got {
    let refs: Option<[&str; 6]> = names.as_ref().map(|n| std::array::from_fn(|i| n[i].as_str()));
    match guarded(|| from_urdf(xml.to_string(), &refs)) {
        None => Got::Panic,
        Some(Ok(p)) => Got::Ok(p),
        Some(Err(e)) => Got::Err(format!("{}", e)),
    }
}

pub fn replay(input: &str, output: &str) {
    quiet_panics();
    let lines = read_ndjson(input);
    let mut out = Out::create(output);
    let mut r = rng(2020);
    let mut evals = 0u64;
    let mut nontrivial = 0u64;
    let mut last_valid: Option<(String, Option<[String; 6]>, Option<([f64; 7], [i8; 6], Joints, Joints)>)> = None;
    for (id, line) in lines.iter().enumerate() {
        let sp = make_spec(line, &mut r);
        let (xml, names) = render(line, &sp, &mut r);
        evals += 1;
        let class = format!("c2{}:b-{}:c3-{}:c4{}", line["c2axis"].as_str().unwrap(), line["b"].as_str().unwrap(), line["c3"].as_str().unwrap(), line["c4axis"].as_str().unwrap());
        let syn = format!("limits-{}:order-{}:nest{}:names-{}:{}", line["limits"].as_str().unwrap(), line["order"].as_str().unwrap(), line["nesting"], line["naming"].as_str().unwrap(), line["copies"].as_str().unwrap());
        let desc = json!({"layout": class, "syntax": syn, "xml": xml});
        let needs_b = line["needs_b"].as_bool().unwrap();
        let want = |k: &str| sp.vals[k];
        // the same document read in the other way of naming the joints (an explicit list of the names as written, or
        // none when the variant has one), before or after the main extraction: neither influences the other
        let raw: Option<[String; 6]> = if names.is_some() { None } else { Some(joint_names(line["naming"].as_str().unwrap(), "lf")) };
        let other_first = if id % 4 == 1 && line["copies"] != "second-robot" { Some(extract(&xml, &raw)) } else { None };
        let main = extract(&xml, &names);
        let key_of = |g: &Got| -> Option<([f64; 7], [i8; 6], Joints, Joints)> { if let Got::Ok(p) = g { Some(([p.a1, p.a2, p.b, p.c1, p.c2, p.c3, p.c4], p.sign_corrections, p.from, p.to)) } else { None } };
        let main_key = key_of(&main);
        let other_after = if id % 4 == 3 && line["copies"] != "second-robot" { Some(extract(&xml, &raw)) } else { None };
        if names.is_none() {
            // (explicit names must find the same robot)
            for (o, when) in [(&other_first, "before"), (&other_after, "after")] {
                if let (Some(o), Got::Ok(m)) = (o, &main) {
                    evals += 1;
                    match o {
                        Got::Ok(p) => if p.a1 != m.a1 || p.a2 != m.a2 || p.b != m.b || p.c1 != m.c1 || p.c2 != m.c2 || p.c3 != m.c3 || p.c4 != m.c4 || p.sign_corrections != m.sign_corrections || p.from != m.from || p.to != m.to {
                            out.put(json!({"sig": "urdf:explicit-names-give-another-robot", "detail": format!("explicit extraction {} the plain one; {}", when, desc), "data": desc}));
                        },
                        Got::Err(e) => out.put(json!({"sig": format!("urdf:explicit-names-rejected:names-{}", line["naming"].as_str().unwrap()), "detail": format!("{} ({} the plain extraction); {}", e, when, desc), "data": desc})),
                        Got::Panic => out.put(json!({"sig": "urdf:extraction-panics:explicit-names", "detail": desc.to_string(), "data": desc})),
                    }
                }
            }
        }
        match main {
            Got::Panic => out.put(json!({"sig": format!("urdf:extraction-panics:{}", line["naming"].as_str().unwrap()), "detail": desc.to_string(), "data": desc})),
            Got::Err(e) => out.put(json!({"sig": format!("urdf:valid-description-rejected:{}:names-{}:{}", class, line["naming"].as_str().unwrap(), line["copies"].as_str().unwrap()), "detail": format!("{}; {}", e, desc), "data": desc})),
            Got::Ok(p) => {
                nontrivial += 1;
                let got = [("a1", p.a1, want("a1")), ("a2", p.a2, -want("-a2")), ("b", p.b, if needs_b { want("b") } else { 0.0 }), ("c1", p.c1, want("c1")), ("c2", p.c2, want("c2")), ("c3", p.c3, want("c3")), ("c4", p.c4, want("c4"))];
                for (n, g, w) in got {
                    if (g - w).abs() > 1e-12 {
                        out.put(json!({"sig": format!("urdf:parameter-{}-differs:{}", n, class), "detail": format!("{} = {} expected {}; {}", n, g, w, desc), "data": desc}));
                    }
                }
                if p.sign_corrections != sp.signs {
                    out.put(json!({"sig": "urdf:sign-corrections-differ", "detail": format!("{:?} vs {:?}; {}", p.sign_corrections, sp.signs, desc), "data": desc}));
                }
                if (0..6).any(|j| (p.from[j] - sp.from[j]).abs() > 1e-12 || (p.to[j] - sp.to[j]).abs() > 1e-12) {
                    out.put(json!({"sig": format!("urdf:limits-differ:limits-{}", line["limits"].as_str().unwrap()), "detail": format!("{:?}..{:?} vs {:?}..{:?}; {}", p.from, p.to, sp.from, sp.to, desc), "data": desc}));
                }
                if p.dof != 6 { out.put(json!({"sig": "urdf:dof-not-6", "detail": desc.to_string()})); }
                // the three views of the result agree, and the solver honours the limits (none = unconstrained)
                let offs: Joints = [0.0, 0.0, -std::f64::consts::FRAC_PI_2, 0.0, 0.0, std::f64::consts::PI];
                let pars = p.parameters(&offs);
                let cons = p.constraints(BY_PREV);
                if pars.a1 != p.a1 || pars.c4 != p.c4 || pars.offsets != offs || pars.sign_corrections != p.sign_corrections || cons.from != p.from || cons.to != p.to {
                    out.put(json!({"sig": "urdf:parameters-constraints-views-disagree", "detail": desc.to_string()}));
                }
                // the file entry point (derived joint names only): the same robot as through the text
                if names.is_none() && id % 5 == 2 && line["copies"] != "second-robot" {
                    let dir = std::env::var("VERIF_TMP").unwrap_or_else(|_| "/tmp".into());
                    let path = std::path::Path::new(&dir).join(format!("opwv-{}-{}.urdf", std::process::id(), id));
                    if std::fs::write(&path, &xml).is_ok() {
                        let from_file = guarded(|| rs_opw_kinematics::urdf::from_urdf_file(&path));
                        let _ = std::fs::remove_file(&path);
                        evals += 1;
                        match from_file {
                            None => out.put(json!({"sig": "urdf:file-entry-point-panics-on-valid-description", "detail": desc.to_string(), "data": desc})),
                            Some(rf) => {
                                let zero = [0.0; 6];
                                let rt = p.to_robot(BY_PREV, &zero);
                                let q: Joints = std::array::from_fn(|_| r.gen_range(-2.0..2.0));
                                let (a, b) = (rf.forward(&q), rt.forward(&q));
                                let same_lim = match (rf.constraints(), rt.constraints()) { (Some(x), Some(y)) => x.from == y.from && x.to == y.to, (None, None) => true, _ => false };
                                if a != b || !same_lim {
                                    out.put(json!({"sig": "urdf:file-entry-point-gives-another-robot", "detail": desc.to_string(), "data": desc}));
                                }
                            }
                        }
                    }
                }
                if id % 4 == 0 {
                    let robot = p.to_robot(BY_PREV, &offs);
                    // a configuration inside the limits (any angle for joints without limits)
                    let q: Joints = std::array::from_fn(|j| if sp.limit_text[j].is_none() { r.gen_range(-3.0..3.0) } else { sp.from[j] + (sp.to[j] - sp.from[j]) * r.gen_range(0.2..0.8) });
                    let qn: Joints = std::array::from_fn(|j| { let mut a = q[j].rem_euclid(2.0 * std::f64::consts::PI); if a > std::f64::consts::PI { a -= 2.0 * std::f64::consts::PI; } a });
                    let m = crate::solver::margins(&pars, &qn);
                    if crate::solver::nonsingular(&m) {
                        evals += 1;
                        let pose = oracle::fk(&pars, &q).to_na();
                        let sols = guarded(|| robot.inverse(&pose)).unwrap_or_default();
                        let found = sols.iter().any(|s| (0..6).all(|j| { let d = (s[j] - q[j]).rem_euclid(2.0 * std::f64::consts::PI); d.min(2.0 * std::f64::consts::PI - d) < 1e-6 }));
                        if !found {
                            let any_free = sp.limit_text.iter().any(|l| l.is_none());
                            out.put(json!({"sig": format!("urdf:solver-from-urdf-loses-in-limit-configuration:{}", if any_free { "joint-without-limits" } else { "all-limited" }),
                                "detail": format!("q={:?} answers={}; {}", q, sols.len(), desc), "data": desc}));
                        }
                    }
                }
            }
        }
        // fault variants derived from this document (a few per behaviour)
        if id % 16 == 0 {
            let mut faults: Vec<(&str, String)> = Vec::new();
            let first = format!("name=\"{}\"", joint_names(line["naming"].as_str().unwrap(), "lf")[2]);
            // (the third joint, and in turn the first and the sixth: a description without joint 6 is not a robot either)
            for (tag, j) in [("missing-joint-1", 0usize), ("missing-joint-6", 5)] {
                let nm = format!("name=\"{}\"", joint_names(line["naming"].as_str().unwrap(), "lf")[j]);
                let nm2 = nm.replacen("name=\"", "name=\"r2_", 1);
                faults.push((tag, xml.replace(&nm, "name=\"somethingelse\"").replace(&nm2, "name=\"somethingelse\"")));
            }
            let second = first.replacen("name=\"", "name=\"r2_", 1);
            faults.push(("missing-joint", xml.replacen(&first, "name=\"somethingelse\"", if line["copies"] == "identical-duplicate" || line["copies"] == "duplicate-other-prefix" { 2 } else { 1 })
                .replacen(&second, "name=\"somethingelse\"", 1)));
            let mut cut = xml.len() * 2 / 3;
            while !xml.is_char_boundary(cut) { cut -= 1; }
            faults.push(("truncated-xml", xml[..cut].to_string()));
            faults.push(("short-xyz", xml.replacen("<origin xyz=\"0 0 0.33\"", "<origin xyz=\"0 0\"", 1)));
            faults.push(("non-numeric-xyz", xml.replacen("<origin xyz=\"0 0 0.33\"", "<origin xyz=\"a b c\"", 1)));
            faults.push(("bad-limit", xml.replacen("lower=\"", "lower=\"abc", 1)));
            // (an origin with two numbers late in the document: the reader has collected most joints when it gives up)
            {
                let at: Vec<usize> = xml.match_indices("<origin xyz=\"").map(|m| m.0 + 13).collect();
                if at.len() >= 3 {
                    let a = at[at.len() - 2];
                    if let Some(e) = xml[a..].find('"') {
                        let two: Vec<&str> = xml[a..a + e].split_whitespace().take(2).collect();
                        let mut x = xml.clone();
                        x.replace_range(a..a + e, &two.join(" "));
                        faults.push(("short-xyz-late", x));
                    }
                }
            }
            faults.push(("empty", String::new()));
            faults.push(("not-xml", "joint1 joint2".to_string()));
            if line["copies"] == "identical-duplicate" {
                // the second copy of one joint differs in exactly one respect: axis direction, origin, or limits
                if let Some(pos) = xml.rfind("<axis xyz=\"") {
                    let rest = &xml[pos..];
                    if let Some(end) = rest.find("\"/>") {
                        let old = &rest[11..end];
                        let flipped = old.split(' ').map(|t| match t { "1" => "-1", "-1" => "1", x => x }).collect::<Vec<_>>().join(" ");
                        let mut x = xml.clone();
                        x.replace_range(pos + 11..pos + end, &flipped);
                        faults.push(("conflicting-duplicate-axis", x));
                    }
                }
                if let Some(pos) = xml.rfind("<origin xyz=\"") {
                    // (the last origin belongs to the fixed flange joint of the single copy; take the one before it)
                    if let Some(pos2) = xml[..pos].rfind("<origin xyz=\"") {
                        let mut x = xml.clone();
                        x.replace_range(pos2..pos2 + 13, "<origin xyz=\"0.001");
                        faults.push(("conflicting-duplicate-origin", x));
                    }
                }
                if let Some(pos) = xml.rfind("upper=\"") { let mut x = xml.clone(); x.insert_str(pos + 7, "1"); faults.push(("conflicting-duplicate-limit", x)); }
            }
            for (name, text) in faults {
                evals += 1;
                let must_err = matches!(name, "missing-joint" | "missing-joint-1" | "missing-joint-6" | "truncated-xml" | "short-xyz" | "non-numeric-xyz" | "empty" | "not-xml" | "conflicting-duplicate-axis" | "conflicting-duplicate-origin");
                match extract(&text, &names) {
                    Got::Panic => out.put(json!({"sig": format!("urdf:faulty-description-panics:{}", name), "detail": format!("{}", &text[..text.len().min(300)])})),
                    Got::Ok(_) if must_err => out.put(json!({"sig": format!("urdf:faulty-description-accepted:{}", name), "detail": format!("{}", &text[..text.len().min(300)])})),
                    _ => {}
                }
                // another (the preceding line's) valid description read right after the faulty one means what it meant
                // when it was read the first time
                if let Some((pxml, pnames, pkey)) = &last_valid {
                    evals += 1;
                    if key_of(&extract(pxml, pnames)) != *pkey {
                        out.put(json!({"sig": "urdf:valid-description-misread-after-a-faulty-one", "detail": format!("after the variant {} of: {}", name, desc)}));
                    }
                }
            }
        }
        if main_key.is_some() { last_valid = Some((xml.clone(), names.clone(), main_key)); }
        if id == 100 { out.put(json!({"sample": {"layout": class, "syntax": syn, "origins": line["origins"], "xml_first_lines": xml.lines().take(14).collect::<Vec<_>>()}})); }
    }
    out.put(json!({"stats": {"lines": lines.len(), "evaluations": evals, "nontrivial": nontrivial}}));
    out.finish();
}
