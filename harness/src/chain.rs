//! C03: forward kinematics against the exact link chain of spec/OpwChain.tla (B1) and against the
//! float oracle on random robots (B3); the float oracle is validated against the exact model too.
use crate::lattice;
use crate::oracle::{self, Iso};
use crate::robots;
use crate::util::*;
use rand::Rng;
use rs_opw_kinematics::constraints::Constraints;
use rs_opw_kinematics::kinematic_traits::Kinematics;
use rs_opw_kinematics::kinematics_impl::OPWKinematics;
use rs_opw_kinematics::parameters::opw_kinematics::Parameters;
use serde_json::{json, Value};

pub const UNIT_M: f64 = 0.05;
const TOL: f64 = 1e-9;

pub fn lattice_params(p: &Value) -> Parameters { lattice_params_unit(p, UNIT_M) }

pub fn lattice_params_unit(p: &Value, unit: f64) -> Parameters {
    let g = |k: &str| p[k].as_i64().unwrap() as f64 * unit;
    robots::params(g("a1"), g("a2"), g("b"), g("c1"), g("c2"), g("c3"), g("c4"))
}

/// joint vector that produces effective lattice angles `e` under the robot's convention
pub fn joints_for(p: &Parameters, e: &[i64], turns: &[i64; 6]) -> [f64; 6] {
    std::array::from_fn(|i| {
        (lattice::angle(e[i]) + p.offsets[i]) * p.sign_corrections[i] as f64
            + turns[i] as f64 * 2.0 * std::f64::consts::PI
    })
}

fn check_poses(out: &mut Out, what: &str, class: &str, got: &[Iso], want: &[Iso], ctx: &Value, tol: f64) -> bool {
    let mut ok = true;
    for i in 0..got.len() {
        let (dp, dr) = lattice::iso_max_diff(&got[i], &want[i]);
        if !(dp <= tol && dr <= tol) {
            out.put(json!({"sig": format!("chain:{}:link{}:{}", what, if got.len() == 1 { 6 } else { i + 1 }, class),
                "detail": format!("position differs by {:.3e} m, rotation entries by {:.3e}; {}", dp, dr, ctx), "data": ctx}));
            ok = false;
        }
        let imp = got[i].improper();
        if !(imp <= 1e-9) {
            out.put(json!({"sig": format!("chain:{}:improper-rotation", what), "detail": format!("deviation {:.3e}; {}", imp, ctx), "data": ctx}));
            ok = false;
        }
    }
    ok
}

/// B1 replay of Gen_Chain lines.
pub fn replay(input: &str, output: &str) {
    let lines = read_ndjson(input);
    let mut out = Out::create(output);
    let mut r = rng(3);
    let mut evals = 0u64;
    let mut nontrivial = 0u64;
    let variants = if thorough() { 8 } else { 3 };
    for (id, line) in lines.iter().enumerate() {
        let e = ivec(&line["e"]);
        let want: Vec<Iso> = line["links"].as_array().unwrap().iter().map(|l| lattice::iso(l, UNIT_M)).collect();
        if e.iter().filter(|k| *k % 3 != 0).count() >= 3 {
            nontrivial += 1;
        }
        for v in 0..variants {
            // convention: variant 0 plain; others: sign pattern cycling through all 64, offsets quarter/random, whole turns
            let mut p = lattice_params(&line["p"]);
            let mut turns = [0i64; 6];
            let class;
            if v == 0 {
                class = "plain";
            } else {
                let sp = (id * 7 + v * 13) % 64;
                let oc = if v % 2 == 1 { "quarter" } else { "random" };
                p = robots::convention(p, sp, oc, &mut r);
                if v >= 2 {
                    turns = std::array::from_fn(|_| r.gen_range(-3..=3));
                }
                class = if v % 2 == 1 { "signs+quarter-offsets" } else { "signs+random-offsets+turns" };
            }
            // a robot declared 5-DOF has the same forward kinematics (joint 6 is simply not solved for)
            if (id + v) % 4 == 1 { p.dof = 5; }
            // every other odd variant: the offsets cancel the lattice angles of some joints, so that the caller's
            // joint value is exactly zero while the effective angle is not
            if v % 4 == 1 {
                for i in 0..6 { if (id >> i) & 1 == 1 { p.offsets[i] = -lattice::angle(e[i]); } }
            }
            let q = joints_for(&p, &e, &turns);
            let ctx = json!({"params": robots::params_json(&p), "q": q, "e": e});
            // both constructors (limits do not take part in forward kinematics)
            let robot = if (id + v) % 2 == 0 { OPWKinematics::new(p) } else {
                OPWKinematics::new_with_constraints(p, Constraints::new([-0.5, -1.0, 0.2, 2.0, -3.0, 1.0], [0.5, 1.5, 0.1, 2.0, 3.0, -1.0], 0.3))
            };
            // the float oracle against the exact model (oracle conformance)
            let oc = oracle::chain(&p, &q);
            check_poses(&mut out, "ORACLE", class, &oc, &want, &ctx, TOL);
            // the code under test
            let fwd = match guarded(|| robot.forward(&q)) {
                Some(f) => f,
                None => { out.put(json!({"sig": "chain:forward:panic", "detail": ctx.to_string()})); continue; }
            };
            let poses = match guarded(|| robot.forward_with_joint_poses(&q)) {
                Some(f) => f,
                None => { out.put(json!({"sig": "chain:forward_with_joint_poses:panic", "detail": ctx.to_string()})); continue; }
            };
            evals += 2;
            let got: Vec<Iso> = poses.iter().map(Iso::from_na).collect();
            check_poses(&mut out, "forward_with_joint_poses", class, &got, &want, &ctx, TOL);
            check_poses(&mut out, "forward", class, &[Iso::from_na(&fwd)], &want[5..6], &ctx, TOL);
            let (dp, dr) = lattice::iso_max_diff(&Iso::from_na(&fwd), &got[5]);
            if !(dp <= 1e-10 && dr <= 1e-10) {
                out.put(json!({"sig": format!("chain:forward-vs-last-link:{}", class), "detail": format!("forward and link pose 6 differ by {:.3e} m / {:.3e}; {}", dp, dr, ctx), "data": ctx}));
            }
            for pz in poses.iter().chain(std::iter::once(&fwd)) {
                let nq = pz.rotation.quaternion().norm();
                if !((nq - 1.0).abs() < 1e-9) {
                    out.put(json!({"sig": "chain:non-unit-quaternion", "detail": format!("norm {}; {}", nq, ctx)}));
                }
            }
            // link pose i depends only on joints 1..i
            if v == 0 || id % 5 == 0 {
                let cut = id % 5 + 1; // joints cut+1..6 are changed
                let mut q2 = q;
                for j in cut..6 {
                    q2[j] += r.gen_range(0.3..2.5);
                }
                if let Some(p2) = guarded(|| robot.forward_with_joint_poses(&q2)) {
                    evals += 1;
                    for i in 0..cut {
                        let (dp, dr) = lattice::iso_max_diff(&Iso::from_na(&p2[i]), &got[i]);
                        if !(dp <= 1e-12 && dr <= 1e-12) {
                            out.put(json!({"sig": format!("chain:link{}-depends-on-later-joints", i + 1), "detail": format!("changing joints {}..6 moved link {} by {:.3e} m / {:.3e}; {}", cut + 1, i + 1, dp, dr, ctx), "data": ctx}));
                        }
                    }
                }
            }
        }
        if id == lines.len() / 2 {
            out.put(json!({"sample": {"e": e, "p": line["p"], "expected_flange": line["links"][5]}}));
        }
    }
    out.put(json!({"stats": {"lines": lines.len(), "evaluations": evals, "nontrivial": nontrivial}}));
    out.finish();
}

/// B1 for C02: the exact pose of every generic lattice configuration is solved by plain `inverse`; the
/// configuration, its wrist twin, duplicate freedom and an even count are demanded.
pub fn replay_ik(input: &str, output: &str) {
    quiet_panics();
    let lines = read_ndjson(input);
    let mut out = Out::create(output);
    let mut r = rng(202);
    let mut evals = 0u64;
    let mut nontrivial = 0u64;
    let two_pi = 2.0 * std::f64::consts::PI;
    let close = |a: f64, b: f64| { let d = (a - b).rem_euclid(two_pi); d.min(two_pi - d) < 1e-6 };
    for (id, line) in lines.iter().enumerate() {
        let e = ivec(&line["e"]);
        let mut p = lattice_params(&line["p"]);
        let class = if id % 3 == 0 { "plain" } else if id % 3 == 1 { "signs+quarter-offsets" } else { "signs+random-offsets" };
        if id % 3 != 0 { p = robots::convention(p, (id * 7) % 64, if id % 3 == 1 { "quarter" } else { "random" }, &mut r); }
        let q = joints_for(&p, &e, &[0; 6]);
        let m = crate::solver::margins(&p, &q);
        if !crate::solver::nonsingular(&m) { continue; }
        nontrivial += 1;
        let pose = lattice::iso(&line["links"][5], UNIT_M).to_na();
        let robot = OPWKinematics::new(p);
        let Some(sols) = guarded(|| robot.inverse(&pose)) else { out.put(json!({"sig": "latticeik:panic", "detail": format!("e={:?}", e)})); continue; };
        evals += 1;
        let ctx = json!({"params": robots::params_json(&p), "q": q, "e": e, "answers": sols.len()});
        if !sols.iter().any(|s| (0..6).all(|j| close(s[j], q[j]))) {
            out.put(json!({"sig": format!("latticeik:originating-configuration-missing:{}", class), "detail": ctx.to_string(), "data": ctx}));
        }
        let shift5 = 2.0 * p.sign_corrections[4] as f64 * p.offsets[4];
        for s in &sols {
            let twin = [s[0], s[1], s[2], s[3] + std::f64::consts::PI, shift5 - s[4], s[5] - std::f64::consts::PI];
            if !sols.iter().any(|t| (0..6).all(|j| close(t[j], twin[j]))) {
                out.put(json!({"sig": format!("latticeik:wrist-twin-missing:{}", class), "detail": ctx.to_string(), "data": ctx}));
                break;
            }
        }
        for a in 0..sols.len() { for b in (a + 1)..sols.len() {
            if (0..6).all(|j| close(sols[a][j], sols[b][j])) { out.put(json!({"sig": format!("latticeik:duplicate-answers:{}", class), "detail": ctx.to_string(), "data": ctx})); }
        } }
        if sols.len() % 2 == 1 || sols.len() > 8 { out.put(json!({"sig": format!("latticeik:odd-or-too-many-answers:{}", class), "detail": ctx.to_string(), "data": ctx})); }
        // every answer reproduces the exact pose (independent chain)
        let want = lattice::iso(&line["links"][5], UNIT_M);
        for s in &sols {
            let b = oracle::fk(&p, s);
            if b.dpos(&want) > 1.001e-6 || b.drot(&want) > 1.001e-6 {
                out.put(json!({"sig": format!("latticeik:answer-misses-exact-pose:{}", class), "detail": ctx.to_string(), "data": ctx}));
                break;
            }
        }
    }
    out.put(json!({"stats": {"lines": lines.len(), "evaluations": evals, "nontrivial": nontrivial}}));
    out.finish();
}

/// B3: random real robots and joint vectors; events carry oracle facts (errors in nm / nrad) judged by
/// Trace_Chain.
pub fn record(output: &str) {
    quiet_panics();
    let mut out = Out::create(output);
    let mut r = rng(33);
    let n = if thorough() { 200_000 } else { 20_000 };
    let nm = |x: f64| -> i64 { if x.is_finite() { (x * 1e9).round().min(2e9) as i64 } else { 2_000_000_000 } };
    let mut last_q = [0.0; 6];
    let mut last_p: Option<Parameters> = None;
    let mut session: Option<(Parameters, &str, &str)> = None;
    for k in 0..n {
        let class = if k % 13 == 12 { robots::FK_ONLY_CLASSES[(k / 13) % 2] } else { robots::GEOMETRY_CLASSES[k % robots::GEOMETRY_CLASSES.len()] };
        let p = if k % 11 == 10 { robots::named_robots()[(k / 11) % 11].1 } else { robots::geometry(class, &mut r) };
        let oc = ["zero", "quarter", "random"][k % 3];
        let mut p = robots::convention(p, (k / 3) % 64, oc, &mut r);
        if k % 5 == 4 { p.dof = 5; }
        // one robot in five is a sibling of the preceding one (part of the description shared)
        if k % 5 == 3 { if let Some(pp) = &last_p { let dof = p.dof; p = robots::sibling(pp, &mut r); p.dof = dof; } }
        let span = [1.0, 3.2, 6.3, 40.0][k % 4];
        let mut q: [f64; 6] = std::array::from_fn(|_| r.gen_range(-span..span));
        // joint values that are exactly zero (whatever the offsets), and the very joint vector of the preceding call
        // given to the next robot (the solvers of consecutive rounds live at the same address)
        if k % 7 == 5 { for i in 0..6 { if r.gen_bool(0.4) { q[i] = 0.0; } } }
        if k % 6 == 4 { q = last_q; }
        // short sessions on one description: after call k = 5 (mod 10) the same robot is asked again with only the arm
        // joints changed, then with only the wrist joints changed, then with a single joint changed
        // (link pose i depends on joints 1..i of THIS call, whatever was asked before)
        let (mut class, mut oc) = (class, oc);
        if let (6..=8, Some((sp, sclass, soc))) = (k % 10, session) {
            p = sp; class = sclass; oc = soc;
            q = last_q;
            match k % 10 {
                6 => for i in 0..3 { q[i] = r.gen_range(-span..span); },
                7 => for i in 3..6 { q[i] = r.gen_range(-span..span); },
                _ => { let i = r.gen_range(0..6); q[i] = r.gen_range(-span..span); }
            }
        }
        if k % 10 == 5 { session = Some((p, class, oc)); }
        last_q = q;
        last_p = Some(p);
        let limits = Constraints::new([-0.5, -1.0, 0.2, 2.0, -3.0, 1.0], [0.5, 1.5, 0.1, 2.0, 3.0, -1.0], 0.3);
        // (constructors: plain, with limits, and - one in four - the URDF route, which is handed the offsets separately)
        let robot = if k % 4 == 3 {
            rs_opw_kinematics::urdf::URDFParameters { a1: p.a1, a2: p.a2, b: p.b, c1: p.c1, c2: p.c2, c3: p.c3, c4: p.c4,
                sign_corrections: p.sign_corrections, from: limits.from, to: limits.to, dof: p.dof }.to_robot(0.3, &p.offsets)
        } else if k % 2 == 0 { OPWKinematics::new(p) } else { OPWKinematics::new_with_constraints(p, limits) };
        // one robot in nine sits behind a parallelogram coupling: the same chain at the joint vector with the coupled
        // joint reduced by scaling times the driven one, through both forward functions of the wrapper
        let coupling = if k % 9 == 7 {
            let driven = r.gen_range(0..6);
            let mut coupled = r.gen_range(0..5);
            if coupled >= driven { coupled += 1; }
            Some((driven, coupled, [1.0, -1.0, 0.5, 1.7][r.gen_range(0..4)]))
        } else { None };
        let mut q_chain = q;
        let kin: Box<dyn Kinematics> = match coupling {
            Some((driven, coupled, scaling)) => {
                q_chain[coupled] -= scaling * q_chain[driven];
                Box::new(rs_opw_kinematics::parallelogram::Parallelogram { robot: std::sync::Arc::new(robot), driven, coupled, scaling })
            }
            None => Box::new(robot),
        };
        let robot = kin.as_ref();
        let want = oracle::chain(&p, &q_chain);
        // (one call in four from inside a worker pool of 1 .. 13 threads: the poses do not depend on the caller's pool)
        let res = guarded(|| in_pool(if k % 4 == 2 { 1 + (k / 4) % 13 } else { 0 }, || (robot.forward(&q), robot.forward_with_joint_poses(&q))));
        match res {
            None => out.put(json!({"ev": "fk", "outcome": "panic", "class": class, "offsets": oc, "signs": (k / 3) % 64, "q": au6(&q)})),
            Some((fwd, poses)) => {
                let got: Vec<Iso> = poses.iter().map(Iso::from_na).collect();
                let f = Iso::from_na(&fwd);
                let pos: Vec<i64> = (0..6).map(|i| nm(got[i].dpos(&want[i]))).collect();
                let rot: Vec<i64> = (0..6).map(|i| nm(got[i].drot(&want[i]))).collect();
                let imp: Vec<i64> = got.iter().map(|g| nm(g.improper())).collect();
                // offsets between consecutive link origins, compared with the parameter defined ones
                let offs = oracle::link_offsets(&p);
                let mut off_err = Vec::new();
                for i in 0..6 {
                    let prev = if i == 0 { Iso::identity() } else { got[i - 1] };
                    let d = oracle::sub(&got[i].t, &prev.t);
                    let w = oracle::mat_vec(&prev.r, &offs[i]);
                    off_err.push(nm(oracle::norm(&oracle::sub(&d, &w))));
                }
                out.put(json!({"ev": "fk", "outcome": "ok", "class": class, "offsets": oc, "signs": (k / 3) % 64, "span": span as i64,
                    "q": au6(&q), "pos_nm": pos, "rot_nrad": rot, "improper_n": imp, "offset_nm": off_err,
                    "fwd_pos_nm": nm(f.dpos(&want[5])), "fwd_rot_nrad": nm(f.drot(&want[5])),
                    "fwd_vs_last_nm": nm(f.dpos(&got[5])), "fwd_vs_last_nrad": nm(f.drot(&got[5]))}));
            }
        }
    }
    out.finish();
}

/// B1 for C01: exact poses of singular / boundary lattice configurations (wrist straight, arm stretched or folded,
/// wrist centre on the J1 axis, and their combinations; lengths in two units, one of them exactly representable):
/// whatever comes back from the four entry points is finite and reproduces the exact pose; nothing is demanded to
/// come back (on the boundary the closed form legitimately loses solutions to rounding).
pub fn replay_edge(input: &str, output: &str) {
    quiet_panics();
    let lines = read_ndjson(input);
    let mut out = Out::create(output);
    let mut evals = 0u64;
    let mut nontrivial = 0u64;
    let mut r = rng(606);
    for (id, line) in lines.iter().enumerate() {
        let e = ivec(&line["e"]);
        for unit in [0.05, 0.0625] {
            let mut p = lattice_params_unit(&line["p"], unit);
            if p.c3 <= 0.0 { continue; }
            if id % 3 == 1 { p = robots::convention(p, (id * 7) % 64, "quarter", &mut r); }
            if id % 3 == 2 { p = robots::convention(p, (id * 11) % 64, "random", &mut r); }
            let q = joints_for(&p, &e, &[0; 6]);
            let m = crate::solver::margins(&p, &q);
            if crate::solver::nonsingular(&m) { continue; }
            let kind = format!("{}{}{}", if m.wrist <= 0.05 { "wrist" } else { "" }, if m.elbow <= 0.05 { "+elbow" } else { "" }, if m.shoulder <= 0.05 { "+shoulder" } else { "" });
            let want = lattice::iso(&line["links"][5], unit);
            let pose = want.to_na();
            let robot = OPWKinematics::new(p);
            for entry in ["inverse", "inverse_continuing", "inverse_5dof", "inverse_continuing_5dof"] {
                let Some(sols) = crate::solver::call(&robot, entry, &pose, &q, q[5]) else {
                    out.put(json!({"sig": format!("latticeedge:panic:{}", entry), "detail": format!("e={:?} unit={}", e, unit)}));
                    continue;
                };
                evals += 1;
                if !sols.is_empty() { nontrivial += 1; }
                let five = entry.contains("5dof");
                let bad = sols.iter().any(|s| {
                    if !s.iter().all(|x| x.is_finite()) { return true; }
                    let b = oracle::fk(&p, s);
                    b.dpos(&want) > 1.001e-6 || if five { b.daxis(&want) > 1.001e-6 } else { b.drot(&want) > 1.001e-6 }
                });
                if bad {
                    let ctx = json!({"params": robots::params_json(&p), "q": q, "e": e, "unit": unit, "answers": sols});
                    out.put(json!({"sig": format!("latticeedge:answer-misses-exact-pose:{}:{}", kind.trim_start_matches('+'), entry), "detail": ctx.to_string(), "data": ctx}));
                }
            }
        }
    }
    out.put(json!({"stats": {"lines": lines.len(), "evaluations": evals, "nontrivial": nontrivial}}));
    out.finish();
}
