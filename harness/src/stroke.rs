//! C12: Cartesian stroke planning on robots with shape. One `plan` header event per call, one `wp` event
//! per waypoint of a returned plan, `planend`, and one `group` event per scenario (all pools / repeats).
use crate::oracle::{self, Iso};
use crate::scene::{self, Scene, WBox, BASE, ENV0, TOOL};
use crate::solver::{LayerF, Robot};
use crate::util::*;
use rand::Rng;
use rs_opw_kinematics::cartesian::{Cartesian, PathFlags, DEFAULT_TRANSITION_COSTS};
use rs_opw_kinematics::collisions::{CheckMode, CollisionBody, SafetyDistances};
use rs_opw_kinematics::constraints::{Constraints, BY_PREV};
use rs_opw_kinematics::kinematic_traits::{Joints, Kinematics, Pose};
use rs_opw_kinematics::kinematics_with_shape::KinematicsWithShape;
use rs_opw_kinematics::parameters::opw_kinematics::Parameters;
use rs_opw_kinematics::rrt::RRTPlanner;
use rs_opw_kinematics::utils::transition_costs;
use rs_opw_kinematics::verif_hooks;
use serde_json::{json, Value};
use std::collections::HashMap;

pub struct Cell {
    pub kws: KinematicsWithShape,
    pub reference: Robot,
    pub from: Joints,
    pub to: Joints,
    pub home: Joints,
    pub table: Vec<(usize, usize, i64)>,   // special distances (um; <= -1e6: never collides), as given to the library
    pub def_env_um: i64,
}

static TWO_STEP: std::sync::atomic::AtomicBool = std::sync::atomic::AtomicBool::new(false);

/// irb2400 with small cubes on the link origins, an axial tool, a base block and one obstacle box
pub fn cell(obstacle: Option<WBox>, safety_um: i64) -> Cell { cell_with(obstacle, safety_um, 6.0, false) }

/// `j6_limit`: joint 6 may turn +- this many radians; `wide`: generous J2/J3/J5 ranges (more landing strategies)
pub fn cell_with(obstacle: Option<WBox>, safety_um: i64, j6_limit: f64, wide: bool) -> Cell { cell_full(obstacle, safety_um, j6_limit, wide, 0, None) }

/// `fragile_um`: when positive, the obstacle is a fragile object: wrist (links 5, 6) and tool have to stay that far
/// from it (special distances towards an environment object, larger than the general one)
/// `limits`: joint ranges to use instead of the standard ones
pub fn cell_full(obstacle: Option<WBox>, safety_um: i64, j6_limit: f64, wide: bool, fragile_um: i64, limits: Option<(Joints, Joints)>) -> Cell {
    let p = Parameters::irb2400_10();
    let tool_iso = Iso { r: oracle::I3, t: [0.0, 0.0, 0.15] };
    let base_iso = Iso::identity();
    let from: Joints = if wide { [-3.1, -2.6, -3.0, -3.4, -2.4, -j6_limit] } else { [-3.0, -1.7, -1.0, -3.4, -2.0, -j6_limit] };
    let to: Joints = if wide { [3.1, 2.6, 3.0, 3.4, 2.4, j6_limit] } else { [3.0, 1.9, 1.1, 3.4, 2.0, j6_limit] };
    let (from, to) = limits.unwrap_or((from, to));
    let reference = Robot::new(p, vec![LayerF::Tool(tool_iso), LayerF::Base(base_iso)], Some((from, to, 0.0)));
    let home: Joints = [0.0, 0.2, 0.1, 0.0, 0.9, 0.0];
    let links = reference.kin.forward_with_joint_poses(&home);
    let mut sc = Scene::spread(true, true, if obstacle.is_some() { 1 } else { 0 });
    for i in 0..6 {
        let o = links[i].translation.vector;
        let idx = sc.idx(i);
        sc.boxes[idx] = WBox { c: [o.x, o.y, o.z + 0.001 * i as f64], h: [0.03, 0.03, 0.03] };
    }
    if wide {
        // an off-axis body on link 4 (a cable guide beside the forearm): the wrist-flipped twin carries it on the other side
        let idx = sc.idx(3);
        let o = links[3] * nalgebra::Point3::new(0.0, 0.10, 0.15);
        sc.boxes[idx] = WBox { c: [o.x, o.y, o.z], h: [0.03, 0.03, 0.03] };
    }
    let tip = links[5] * nalgebra::Point3::new(0.0, 0.0, 0.09);
    let it = sc.idx(TOOL);
    sc.boxes[it] = WBox { c: [tip.x, tip.y, tip.z], h: [0.015, 0.015, 0.04] };
    let ib = sc.idx(BASE);
    sc.boxes[ib] = WBox { c: [0.0, 0.0, -0.3], h: [0.2, 0.2, 0.1] };
    let joint_meshes: [parry3d::shape::TriMesh; 6] = std::array::from_fn(|i| { let x = sc.idx(i); scene::local_mesh(&sc.boxes[x], false, &links[i]) });
    let tool_mesh = scene::local_mesh(&sc.boxes[it], false, &links[5]);
    let base_na = base_iso.to_na();
    let base_mesh = scene::local_mesh(&sc.boxes[ib], false, &base_na);
    let env: Vec<CollisionBody> = obstacle.iter().map(|b| {
        let pose = nalgebra::Isometry3::identity();
        CollisionBody { mesh: scene::local_mesh(b, true, &pose), pose: pose.cast() }
    }).collect();
    let _ = ENV0;
    let mut special: HashMap<(u16, u16), f32> = HashMap::new();
    special.insert((0, 101), -1.0);
    special.insert((1, 101), -1.0);
    let mut table: Vec<(usize, usize, i64)> = vec![(0, BASE, -1_000_000), (1, BASE, -1_000_000)];
    if fragile_um > 0 && obstacle.is_some() {
        for (i, body) in [4usize, 5, TOOL].iter().enumerate() {
            // (both key orders occur in user code)
            if i % 2 == 0 { special.insert((*body as u16, ENV0 as u16), fragile_um as f32 / 1e6); } else { special.insert((ENV0 as u16, *body as u16), fragile_um as f32 / 1e6); }
            table.push((*body, ENV0, fragile_um));
        }
    }
    let safety = SafetyDistances { to_environment: safety_um as f32 / 1e6, to_robot_default: 0.0, special_distances: special, mode: CheckMode::FirstCollisionOnly };
    // (every second cell of a class obtained its joint ranges in two steps: constructed with ranges that are 0.4 rad more generous
    //  on either side, then narrowed with update_range)
    let constraints = if TWO_STEP.load(std::sync::atomic::Ordering::Relaxed) {
        let mut c = Constraints::new(std::array::from_fn(|i| from[i] - 0.4), std::array::from_fn(|i| to[i] + 0.4), BY_PREV);
        c.update_range(from, to);
        c
    } else { Constraints::new(from, to, BY_PREV) };
    let kws = KinematicsWithShape::with_safety(p, constraints, joint_meshes, base_mesh, base_na, tool_mesh, tool_iso.to_na(), env, safety);
    Cell { kws, reference, from, to, home, table, def_env_um: safety_um }
}

fn down_pose(x: f64, y: f64, z: f64, yaw: f64) -> Pose {
    let rot = nalgebra::UnitQuaternion::from_axis_angle(&nalgebra::Vector3::z_axis(), yaw) * nalgebra::UnitQuaternion::from_axis_angle(&nalgebra::Vector3::y_axis(), std::f64::consts::PI);
    Pose::from_parts(nalgebra::Translation3::new(x, y, z), rot)
}

/// Find an obstacle box that the landing strategy closest to the start configuration hits late on the stroke (and
/// nowhere near the landing), while some other strategy follows the whole stroke without touching it.
fn branch_blocker(land: &Pose, steps: &[Pose], park: &Pose) -> Option<WBox> {
    let c0 = cell_with(None, 0, 6.0, true);
    let strategies = c0.kws.inverse_continuing(land, &c0.home);
    if std::env::var("VERIF_DEBUG").is_ok() { eprintln!("branch_blocker: {} strategies", strategies.len()); }
    if strategies.len() < 2 { return None; }
    // dense poses along land -> steps -> park
    let mut keys: Vec<Pose> = vec![*land];
    keys.extend(steps.iter().cloned());
    keys.push(*park);
    let mut dense: Vec<Pose> = Vec::new();
    for w in keys.windows(2) {
        for i in 0..10 {
            let f = i as f64 / 10.0;
            dense.push(Pose::from_parts(nalgebra::Translation3::from(w[0].translation.vector.lerp(&w[1].translation.vector, f)), w[0].rotation.slerp(&w[1].rotation, f)));
        }
    }
    dense.push(*park);
    let follow = |start: &Joints| -> Option<Vec<Joints>> {
        let mut v = vec![*start];
        for p in &dense {
            let s = c0.kws.kinematics.inverse_continuing(p, v.last().unwrap());
            let next = *s.first()?;
            if transition_costs(v.last().unwrap(), &next, &DEFAULT_TRANSITION_COSTS) > 0.3 { return None; }
            v.push(next);
        }
        Some(v)
    };
    let ta = follow(&strategies[0]);
    if std::env::var("VERIF_DEBUG").is_ok() { eprintln!("branch_blocker: A follows: {}", ta.is_some()); }
    let ta = ta?;
    for sb in strategies.iter().skip(1) {
        let tb = follow(sb);
        if std::env::var("VERIF_DEBUG").is_ok() { eprintln!("branch_blocker: B {:?} follows: {}", sb, tb.is_some()); }
        let Some(tb) = tb else { continue; };
        // candidate: where link 3 / link 4 of strategy A is at 80 % of the stroke
        let qa = ta[ta.len() * 8 / 10];
        let la = c0.kws.kinematics.forward_with_joint_poses(&qa);
        // the two strategies must differ in the arm posture there (not just a wrist flip)
        let qb = tb[tb.len() * 8 / 10];
        if (0..4).all(|j| (qa[j] - qb[j]).abs() < 0.2) { continue; }
        for li in [3usize, 2, 1] {
            // (the body of link 4 sits off its axis, see cell_with)
            let o = if li == 3 { (la[3] * nalgebra::Point3::new(0.0, 0.10, 0.15)).coords } else { la[li].translation.vector };
            let b = WBox { c: [o.x, o.y, o.z], h: [0.035, 0.035, 0.035] };
            let c1 = cell_with(Some(b), 0, 6.0, true);
            let a_hits_late = c1.kws.collides(&qa);
            let a_free_early = ta.iter().take(ta.len() / 3).all(|q| !c1.kws.collides(q));
            let b_free = tb.iter().all(|q| !c1.kws.collides(q));
            if a_hits_late && a_free_early && b_free && !c1.kws.collides(&c1.home) { return Some(b); }
        }
    }
    None
}

fn flag_names(f: &PathFlags) -> Vec<&'static str> {
    let mut v = Vec::new();
    if f.contains(PathFlags::ONBOARDING) { v.push("ONBOARDING"); }
    if f.contains(PathFlags::LAND) { v.push("LAND"); }
    if f.contains(PathFlags::TRACE) { v.push("TRACE"); }
    if f.contains(PathFlags::PARK) { v.push("PARK"); }
    if f.contains(PathFlags::LIN_INTERP) { v.push("LIN_INTERP"); }
    v
}

fn nano(x: f64) -> i64 { if x.is_finite() { (x * 1e9).round().min(2e9) as i64 } else { 2_000_000_000 } }

/// distance (m) of point p from the segment a-b
fn seg_dist(p: &[f64; 3], a: &[f64; 3], b: &[f64; 3]) -> f64 {
    let ab = oracle::sub(b, a);
    let l2 = oracle::dot(&ab, &ab);
    let t = if l2 > 0.0 { (oracle::dot(&oracle::sub(p, a), &ab) / l2).clamp(0.0, 1.0) } else { 0.0 };
    oracle::norm(&oracle::sub(p, &oracle::add(a, &oracle::scale(t, &ab))))
}

pub fn record(output: &str) {
    quiet_panics();
    let mut out = Out::create(output);
    let mut r = rng(1212);
    let n_cases = if thorough() { 140 } else { 28 };
    let mut case_no = 0usize;
    let reps = if thorough() { 3 } else { 1 };
    for k in 0..n_cases {
        let obstacle_class = ["free", "blocking", "grazing", "at-stroke-pose", "wrist-flip", "branch-blocking", "repeated-poses", "fragile", "turning", "no-steps", "start-collides", "landing-unreachable", "turn-in-place", "detour-onboarding"][k % 14];
        let y0 = r.gen_range(-0.25..-0.1);
        let y1 = r.gen_range(0.1..0.25);
        let x = r.gen_range(0.85..1.0);
        let z = r.gen_range(0.55..0.75);
        // the settings below vary with the occurrence number of the class (and a class-dependent shift), so that every
        // class meets every setting as the cases go on - a selector tied to k itself would alias with the class index
        let nth = k / 14;
        let v = nth + (k % 14) / 2;
        let yaw = if v % 2 == 0 { 0.0 } else { r.gen_range(-0.5..0.5) };
        let obstacle: Option<WBox> = match obstacle_class {
            "blocking" => Some(WBox { c: [x, (y0 + y1) / 2.0, z + 0.03], h: [0.04, 0.03, 0.04] }),   // on the path of the tool body
            "grazing" => Some(WBox { c: [x, (y0 + y1) / 2.0, z - 0.16], h: [0.04, 0.03, 0.04] }),    // below the tool tip path
            // a thin plate exactly at the second stroke pose: only that pose (not its interpolated neighbours, which are
            // a whole check step away) touches it
            "at-stroke-pose" => Some(WBox { c: [x, (y0 + y1) / 2.0, z + 0.03], h: [0.04, 0.002, 0.04] }),   // 3 stroke poses: the middle one
            // a fragile object 8 cm beside the tool path: far beyond the general distance, inside its own 15 cm
            "fragile" => Some(WBox { c: [x + 0.04 + 0.015 + 0.08, (y0 + y1) / 2.0, z + 0.03], h: [0.04, 0.03, 0.04] }),
            _ => None,
        };
        let mut nsteps = if obstacle_class == "at-stroke-pose" { 3 } else { 2 + v % 3 };
        let mut steps: Vec<Pose> = (0..nsteps).map(|i| down_pose(x, y0 + (y1 - y0) * i as f64 / (nsteps - 1) as f64, z, yaw)).collect();
        let land = down_pose(x, y0, z + 0.1, yaw);
        let mut park = down_pose(x, y1, z + 0.1, yaw);
        let mut obstacle = obstacle;
        let mut j6_limit = 6.0;
        let mut land = land;
        if obstacle_class == "repeated-poses" {
            // landing on the first stroke pose itself, parking on the last one, and a stroke pose given twice
            nsteps = 4;
            let ys = [y0, (y0 + y1) / 2.0, (y0 + y1) / 2.0, y1];
            steps = ys.iter().map(|y| down_pose(x, *y, z, yaw)).collect();
            land = steps[0];
            park = steps[3];
        }
        if obstacle_class == "no-steps" {
            // landing and parking only: the "stroke" is the straight move between them
            nsteps = 0;
            steps = vec![];
        }
        if obstacle_class == "landing-unreachable" {
            // the landing pose is three metres up: no strategy, an error
            land = down_pose(x, y0, z + 3.0, yaw);
        }
        if obstacle_class == "turn-in-place" {
            // the tool dwells at two of the stroke positions and turns there by 20 degrees (same position, another
            // orientation), and the poses in between are 1 cm apart with 20 degrees of turn: rotation dominates
            nsteps = 5;
            let ys = [y0, y0, y0 + 0.01, y0 + 0.02, y0 + 0.02];
            steps = (0..5).map(|i| down_pose(x, ys[i], z, yaw + 0.35 * i as f64)).collect();
            park = down_pose(x, y0 + 0.02, z + 0.1, yaw + 1.4);
        }
        if obstacle_class == "turning" {
            // the tool turns by 9 degrees from pose to pose; every second pose is written with the opposite sign of the
            // quaternion (the same rotation)
            nsteps = 4;
            steps = (0..4).map(|i| {
                let p = down_pose(x, y0 + (y1 - y0) * i as f64 / 3.0, z, yaw + 0.16 * i as f64);
                if i % 2 == 1 { Pose::from_parts(p.translation, nalgebra::UnitQuaternion::new_unchecked(-p.rotation.into_inner())) } else { p }
            }).collect();
            park = down_pose(x, y1, z + 0.1, yaw + 0.48);
        }
        if obstacle_class == "wrist-flip" {
            // the tool spins by 430 degrees along the stroke while joint 6 may only turn +-137 degrees: somewhere in
            // the middle of the stroke the wrist has to flip, which no Cartesian transition can do (RRT closes the gap)
            nsteps = 5;
            steps = (0..5).map(|i| down_pose(x, y0 + (y1 - y0) * i as f64 / 4.0, z, [0.0, 1.9, 3.8, 5.7, 7.5][i])).collect();
            park = down_pose(x, y1, z + 0.1, 7.5);
            j6_limit = 2.4;     // (limits are modular: a range of a full turn or more would never force a flip)
        }
        let mut narrow_limits: Option<(Joints, Joints)> = None;
        if obstacle_class == "detour-onboarding" {
            // a vertical plate between the start position and the stroke (which lies entirely on its far side): the way
            // to the landing pose has to be found by the joint-space planner, within ranges that leave J1, J4 and J6
            // little more room than the motion needs
            let yl = r.gen_range(-0.30..-0.24);
            nsteps = 2;
            steps = vec![down_pose(x, yl, z, yaw), down_pose(x, yl + 0.08, z, yaw)];
            land = down_pose(x, yl, z + 0.1, yaw);
            park = down_pose(x, yl + 0.08, z + 0.1, yaw);
            obstacle = Some(WBox { c: [x, -0.08, z + 0.3], h: [0.35, 0.003, 0.6] });
            // (J1, J4, J6: five degrees beyond what start and landing solution span; the other joints keep their ranges)
            let c0 = cell_with(None, 0, 6.0, false);
            let Some(g) = c0.kws.kinematics.inverse_continuing(&land, &c0.home).first().cloned() else { continue; };
            let mut lf: Joints = [-3.0, -1.7, -1.0, -3.4, -2.0, -6.0];
            let mut lt: Joints = [3.0, 1.9, 1.1, 3.4, 2.0, 6.0];
            for j in [0usize, 3, 5] { lf[j] = c0.home[j].min(g[j]) - 0.09; lt[j] = c0.home[j].max(g[j]) + 0.09; }
            // (every second cell of this class writes the range of J6 as a wrap-around range: from > to, the same arc)
            if nth % 2 == 1 { lt[5] -= 2.0 * std::f64::consts::PI; }
            narrow_limits = Some((lf, lt));
        }
        if obstacle_class == "start-collides" {
            // a plate through the tool at the start configuration: planning has to refuse
            let c0 = cell_with(None, 0, 6.0, false);
            let t = c0.kws.kinematics.forward(&c0.home).translation.vector;
            obstacle = Some(WBox { c: [t.x, t.y, t.z + 0.05], h: [0.1, 0.1, 0.002] });
        }
        if obstacle_class == "branch-blocking" {
            // an obstacle that only the strategy closest to the start hits, late on the stroke; another strategy is clean
            obstacle = branch_blocker(&land, &steps, &park);
            if obstacle.is_none() { continue; }
        }
        TWO_STEP.store((nth + k % 14) % 2 == 1, std::sync::atomic::Ordering::Relaxed);
        let cell = cell_full(obstacle, if v % 4 == 3 || obstacle_class == "fragile" { 10_000 } else { 0 }, j6_limit, obstacle_class == "branch-blocking", if obstacle_class == "fragile" { 150_000 } else { 0 }, narrow_limits);
        TWO_STEP.store(false, std::sync::atomic::Ordering::Relaxed);
        // every third cell starts with joint 6 beyond half a turn (189 degrees, well inside its +-344 degree range)
        let mut start = cell.home;
        if (nth + k) % 3 == 2 && j6_limit > 4.0 && obstacle_class != "start-collides" { start[5] = 3.3; }
        let table_json = json!(cell.table.iter().map(|t| json!([t.0, t.1, t.2])).collect::<Vec<_>>());
        let nenv = cell.kws.body.collision_environment.len();
        let include = (nth + k % 14) % 2 == 0;
        let max_cost = if obstacle_class == "at-stroke-pose" { 25.0f64.to_radians() } else { [6.0f64, 12.0, 3.0][(nth + k % 14) % 3].to_radians() };
        // transition coefficients: the defaults, or a configuration that weighs some joints much more
        let coeffs: Joints = match (nth + k % 14 / 3) % 3 { 0 => DEFAULT_TRANSITION_COSTS, 1 => [3.0, 2.5, 2.5, 0.9, 0.9, 3.5], _ => [2.4, 2.2, 2.2, 1.8, 1.8, 1.6] };
        let mut outcomes: Vec<bool> = Vec::new();
        let mut any_rrt = false;
        case_no += 1;
        // every second cell with an obstacle: the same stroke was planned a moment ago, on this thread, in the cell as it
        // was before the obstacle came (same robot, same ranges, same distances) - what was free then need not be now
        if obstacle.is_some() && v % 2 == 0 && obstacle_class != "start-collides" {
            let before = cell_full(None, if v % 4 == 3 || obstacle_class == "fragile" { 10_000 } else { 0 }, j6_limit, obstacle_class == "branch-blocking", 0, narrow_limits);
            let planner = Cartesian { robot: &before.kws, check_step_m: 0.02, check_step_rad: 3.0f64.to_radians(), max_transition_cost: max_cost, transition_coefficients: coeffs,
                linear_recursion_depth: 8, rrt: RRTPlanner { step_size_joint_space: 3.0f64.to_radians(), max_try: 1000, debug: false }, include_linear_interpolation: include, debug: false };
            let _ = guarded(|| planner.plan(&start, &land, steps.clone(), &park));
            let _ = verif_hooks::drain();
        }
        // (the class whose success needs a second strategy is also asked from a pool with a single worker)
        let (pools, reps) = if obstacle_class == "branch-blocking" { let mut p = pools_for(case_no, 4); if !p.contains(&1) { p.insert(0, 1); } (p, 2) } else { (pools_for(case_no, if thorough() { 4 } else { 2 }), reps) };
        for &pool in &pools {
            for rep in 0..reps {
                let planner = Cartesian {
                    robot: &cell.kws,
                    check_step_m: if obstacle_class == "wrist-flip" && nth % 2 == 0 { 1.0 } else if obstacle_class == "at-stroke-pose" { 0.06 } else { [0.02, 0.05][(nth + k % 14 / 4) % 2] },
                    // (fine or coarse densification; every second wrist-flip stroke is not densified at all, so that the
                    //  windows run from stroke pose to stroke pose and the bisection has to find the flip itself)
                    check_step_rad: if obstacle_class == "wrist-flip" && nth % 2 == 0 { 3.2 } else { [3.0f64, 30.0][(nth + k % 14 / 2) % 2].to_radians() },
                    max_transition_cost: max_cost,
                    transition_coefficients: coeffs,
                    linear_recursion_depth: [3, 8][nth % 2],
                    rrt: RRTPlanner { step_size_joint_space: 3.0f64.to_radians(), max_try: 1000, debug: false },
                    include_linear_interpolation: include,
                    debug: false,
                };
                // (every third case: the same planner object is asked for a second stroke right away, same landing and
                //  parking poses, stroke poses 2 cm further out; judged like any other plan)
                for second in [false, true] {
                    if second && !((nth + k) % 3 == 1 && rep == 0 && pool == *pools.last().unwrap()) { continue; }
                    let steps_v: Vec<Pose> = if second { steps.iter().map(|p| Pose::from_parts(nalgebra::Translation3::new(p.translation.x + 0.02, p.translation.y, p.translation.z), p.rotation)).collect() } else { steps.clone() };
                    verif_hooks::start();
                    let res = guarded(|| in_pool(pool, || planner.plan(&start, &land, steps_v.clone(), &park)));
                    let hooks = verif_hooks::drain();
                    let mut wins = [0usize; 3];
                    for h in &hooks {
                        if h.1 == "window" {
                            let v: Value = serde_json::from_str(&h.2).unwrap_or(json!({}));
                            match v["kind"].as_str().unwrap_or("") { "direct" => wins[0] += 1, "bisect" => wins[1] += 1, "rrt" => wins[2] += 1, _ => {} }
                        }
                    }
                    // (random re-planning is "needed" when the RETURNED plan contains an RRT-closed window; windows of other,
                    //  failing strategies do not count)
                    let head = json!({"ev": "plan", "case": k, "pool": pool, "rep": rep, "second": second, "obstacle": obstacle_class, "include": include, "nsteps": nsteps,
                        "windows": {"direct": wins[0], "bisect": wins[1], "rrt": wins[2]}, "max_cost_au": rad2au(max_cost),
                        "table": table_json, "def_env": cell.def_env_um, "def_robot": 0, "nenv": nenv});
                    let mut h = head.clone();
                    match res {
                        None => { h["outcome"] = json!("panic"); out.put(h); if !second { outcomes.push(false); } }
                        Some(Err(msg)) => { h["outcome"] = json!("err"); h["msg"] = json!(msg); out.put(h); if !second { outcomes.push(false); } }
                        Some(Ok(path)) => {
                            h["outcome"] = json!("ok");
                            h["len"] = json!(path.len());
                            let seen_land = path.iter().position(|w| w.flags.contains(PathFlags::LAND)).unwrap_or(0);
                            if path.iter().skip(seen_land + 1).any(|w| flag_names(&w.flags).is_empty()) { if !second { any_rrt = true; } }
                            out.put(h);
                            if !second { outcomes.push(true); }
                            // originals in order: land, steps.., park
                            let originals: Vec<Iso> = std::iter::once(&land).chain(steps_v.iter()).chain(std::iter::once(&park)).map(Iso::from_na).collect();
                            let mut next_original = 0usize;
                            for (i, w) in path.iter().enumerate() {
                                let names = flag_names(&w.flags);
                                let here = cell.reference.ofk(&w.joints);
                                let is_orig = names.iter().any(|n| *n == "LAND" || *n == "TRACE" || *n == "PARK") && !names.contains(&"LIN_INTERP");
                                let mut fk_nm = -1i64;
                                let mut seg_um = -1i64;
                                if is_orig {
                                    if next_original < originals.len() {
                                        let o = &originals[next_original];
                                        fk_nm = nano(here.dpos(o).max(here.drot(o)));
                                        next_original += 1;
                                    } else { fk_nm = 2_000_000_000; }
                                } else if names.contains(&"LIN_INTERP") && next_original >= 1 && next_original < originals.len() {
                                    let a = &originals[next_original - 1];
                                    let b = &originals[next_original];
                                    // on the straight segment, orientation between the two (both stroke poses share it here)
                                    let d = seg_dist(&here.t, &a.t, &b.t);
                                    // orientation: on the shortest turn from one pose to the other (the two angles add up to
                                    // the angle between the poses); in micro-radians, like the position in micrometres
                                    let excess = (here.drot(a) + here.drot(b) - a.drot(b)).abs();
                                    seg_um = ((d.max(excess)) * 1e6).round() as i64;
                                }
                                // (the weighted sum of the joint rotations, computed here)
                                let cost = if i == 0 { 0.0 } else { (0..6).map(|j| (path[i - 1].joints[j] - w.joints[j]).abs() * coeffs[j]).sum::<f64>() };
                                // distances of all pairs of bodies from brute force (the verdict is TLC's: module Collision)
                                let pairs: Vec<Value> = scene::brute(&cell.kws.body, cell.kws.kinematics.as_ref(), &w.joints).iter()
                                    .map(|x| json!({"a": x.0, "b": x.1, "d": x.2, "touch": x.3})).collect();
                                out.put(json!({"ev": "wp", "i": i + 1, "flags": names, "q": au6(&w.joints), "collides": cell.kws.collides(&w.joints), "pairs": pairs,
                                    "from": au6(&cell.from), "to": au6(&cell.to), "is_start": w.joints == start,
                                    "fk_nm": fk_nm, "seg_um": seg_um, "cost_milli": ((cost / max_cost) * 1000.0).round() as i64}));
                            }
                            out.put(json!({"ev": "planend"}));
                        }
                    }
                }
            }
        }
        // two planners at work at the same time (classes that need no random planning): the stroke is planned three times
        // in a row in this cell while, on another thread, the same stroke is planned with a ten times finer check step in
        // a second cell of the same kind - each plan succeeds as it does alone, whatever the other one is doing
        // (only the outcomes are recorded: they join the outcomes of the group)
        if matches!(obstacle_class, "free" | "turning" | "repeated-poses") {
            TWO_STEP.store((nth + k % 14) % 2 == 1, std::sync::atomic::Ordering::Relaxed);
            let cell2 = cell_full(obstacle, if v % 4 == 3 { 10_000 } else { 0 }, j6_limit, false, 0, narrow_limits);
            TWO_STEP.store(false, std::sync::atomic::Ordering::Relaxed);
            let plan_in = |c: &Cell, step_m: f64, times: usize| -> Vec<bool> {
                let planner = Cartesian { robot: &c.kws, check_step_m: step_m, check_step_rad: 3.0f64.to_radians(), max_transition_cost: max_cost, transition_coefficients: coeffs,
                    linear_recursion_depth: 8, rrt: RRTPlanner { step_size_joint_space: 3.0f64.to_radians(), max_try: 1000, debug: false }, include_linear_interpolation: include, debug: false };
                (0..times).map(|_| matches!(guarded(|| planner.plan(&start, &land, steps.clone(), &park)), Some(Ok(_)))).collect()
            };
            let (ra, rb) = std::thread::scope(|sc| {
                let ha = sc.spawn(|| plan_in(&cell, 0.05, 3));
                let hb = sc.spawn(|| plan_in(&cell2, 0.005, 1));
                (ha.join().unwrap_or(vec![false]), hb.join().unwrap_or(vec![false]))
            });
            let _ = verif_hooks::drain();
            for (which, ok) in ra.iter().map(|o| ("first", o)).chain(rb.iter().map(|o| ("second", o))) {
                outcomes.push(*ok);
                if !*ok {
                    out.put(json!({"ev": "plan", "case": k, "pool": 0, "rep": 90, "second": false, "concurrent": which, "obstacle": obstacle_class, "include": include, "nsteps": nsteps,
                        "windows": {"direct": 0, "bisect": 0, "rrt": 0}, "max_cost_au": rad2au(max_cost), "table": table_json, "def_env": cell.def_env_um, "def_robot": 0, "nenv": nenv,
                        "outcome": "err", "msg": "planned while another planner was at work"}));
                }
            }
        }
        // (the detour class needs the randomised planner already for the way to the landing pose)
        out.put(json!({"ev": "group", "case": k, "obstacle": obstacle_class, "outcomes": outcomes, "needs_rrt": any_rrt || obstacle_class == "detour-onboarding"}));
    }
    out.finish();
}
