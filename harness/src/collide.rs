//! C10 / C14: collision task enumeration (hook H3, B1 replay of Gen_Collision), collision verdicts on
//! constructive scenes (B2, judged by Trace_Collision from brute-force distances), single-joint offsets.
use crate::scene::{self, Scene, WBox, BASE, ENV0, TOOL};
use crate::util::*;
use nalgebra::Isometry3;
use rand::Rng;
use rs_opw_kinematics::collisions::{BaseBody, CheckMode, CollisionBody, RobotBody, SafetyDistances, NEVER_COLLIDES};
use rs_opw_kinematics::constraints::{Constraints, BY_PREV};
use rs_opw_kinematics::kinematic_traits::{Joints, Kinematics};
use rs_opw_kinematics::kinematics_impl::OPWKinematics;
use rs_opw_kinematics::parameters::opw_kinematics::Parameters;
use rs_opw_kinematics::verif_hooks;
use serde_json::{json, Value};
use std::collections::{BTreeSet, HashMap};

fn robot() -> OPWKinematics {
    OPWKinematics::new_with_constraints(Parameters::irb2400_10(), Constraints::new([-3.0; 6], [3.0; 6], BY_PREV))
}

fn safety_from(table: &Value, def_env_um: i64, def_robot_um: i64, mode: CheckMode) -> SafetyDistances {
    let mut m: HashMap<(u16, u16), f32> = HashMap::new();
    let mut listed: Vec<((usize, usize), f32)> = Vec::new();
    for t in table.as_array().unwrap() {
        let r = t[2].as_i64().unwrap();
        let v = if r <= -1_000_000 { NEVER_COLLIDES } else { r as f32 / 1e6 };
        m.insert((t[0].as_u64().unwrap() as u16, t[1].as_u64().unwrap() as u16), v);
        listed.push(((t[0].as_u64().unwrap() as usize, t[1].as_u64().unwrap() as usize), v));
    }
    // tables with an even number of entries are built with the library's own helper (pairs of usize -> table)
    if listed.len() % 2 == 0 { m = SafetyDistances::distances(&listed); }
    SafetyDistances { to_environment: def_env_um as f32 / 1e6, to_robot_default: def_robot_um as f32 / 1e6, special_distances: m, mode }
}

fn pair_set(v: &Value) -> BTreeSet<(u64, u64)> {
    v.as_array().unwrap().iter().map(|p| { let (a, b) = (p[0].as_u64().unwrap(), p[1].as_u64().unwrap()); if a < b { (a, b) } else { (b, a) } }).collect()
}

fn category(p: &(u64, u64)) -> &'static str {
    let (a, b) = (p.0 as usize, p.1 as usize);
    if b >= ENV0 { if a == TOOL { "tool-env" } else { "link-env" } }
    else if a == TOOL && b == BASE { "tool-base" }
    else if b == TOOL { "tool-link" }
    else if b == BASE { "base-link" }
    else { "link-link" }
}

fn drain_tasks() -> Vec<(Vec<u64>, BTreeSet<(u64, u64)>)> {
    verif_hooks::drain().into_iter().filter(|e| e.1 == "tasks").map(|e| {
        let v: Value = serde_json::from_str(&e.2).expect("hook payload");
        (ivec(&v["skip"]).iter().map(|x| *x as u64).collect(), pair_set(&v["pairs"]))
    }).collect()
}

pub fn replay_tasks(input: &str, output: &str) {
    quiet_panics();
    let lines = read_ndjson(input);
    let mut out = Out::create(output);
    let kin = robot();
    let q0: Joints = [0.1, 0.2, -0.3, 0.4, 0.8, -0.2];
    let mut evals = 0u64;
    let mut nontrivial = 0u64;
    let mut divergences = 0u64;
    for (id, line) in lines.iter().enumerate() {
        let tool = line["tool"].as_bool().unwrap();
        let base = line["base"].as_bool().unwrap();
        let nenv = line["nenv"].as_u64().unwrap() as usize;
        let sc = Scene::spread(tool, base, nenv);
        let relevant = pair_set(&line["relevant"]);
        let must: Vec<BTreeSet<(u64, u64)>> = line["must"].as_array().unwrap().iter().map(pair_set).collect();
        if !line["table"].as_array().unwrap().is_empty() { nontrivial += 1; }
        let desc = json!({"tool": tool, "base": base, "nenv": nenv, "table": line["table"]});
        // A pair missing from the enumerated tasks is only a DIVERGENCE from the specified algorithm (the code may
        // prune or order the evaluation differently); it becomes a violation when CONFIRMED at the verdict level: a
        // scene in which exactly that pair overlaps, and the API does not report it / offers the colliding offset.
        let confirm = |api: &str, k: usize, p: &(u64, u64)| -> Option<bool> {
            let (a, b) = (p.0 as usize, p.1 as usize);
            let mut sc2 = Scene::spread(tool, base, nenv);
            sc2.place_next(a, b, -0.004);
            let table = &line["table"];
            match api {
                "non_colliding_offsets" => {
                    let j = k; // joints 0..k-1 unmoved: joint k is the one replaced
                    let mut cand = q0;
                    cand[j] += 0.3;
                    let body = scene::build(&sc2, &kin, &cand, &Isometry3::identity(), safety_from(table, 0, 0, CheckMode::FirstCollisionOnly));
                    if body.collides(&q0, &kin) { return None; } // precondition (free initial vector) not met: undecided
                    let mut from = q0;
                    let mut to = q0;
                    from[j] -= 0.3;
                    to[j] += 0.3;
                    let offered = body.non_colliding_offsets(&q0, &from, &to, &kin);
                    Some(!offered.iter().any(|v| *v == cand))
                }
                "near" | "near-with-other-body-table" => {
                    let own = if api == "near" { json!([]) } else { json!([[0, 2, -1000000], [3, BASE, -1000000], [1, TOOL, -1000000], [5, ENV0, -1000000]]) };
                    let body = scene::build(&sc2, &kin, &q0, &Isometry3::identity(), safety_from(&own, 0, 0, CheckMode::AllCollsions));
                    let rep = body.near(&q0, &kin, &safety_from(table, 0, 0, CheckMode::AllCollsions));
                    Some(rep.iter().any(|x| (x.0.min(x.1), x.0.max(x.1)) == (a, b)))
                }
                "collides" => {
                    let body = scene::build(&sc2, &kin, &q0, &Isometry3::identity(), safety_from(table, 0, 0, CheckMode::AllCollsions));
                    Some(body.collides(&q0, &kin))
                }
                _ => {
                    let body = scene::build(&sc2, &kin, &q0, &Isometry3::identity(), safety_from(table, 0, 0, CheckMode::AllCollsions));
                    Some(body.collision_details(&q0, &kin).iter().any(|x| (x.0.min(x.1), x.0.max(x.1)) == (a, b)))
                }
            }
        };
        let mut judge = |api: &str, k: usize, tasks: &BTreeSet<(u64, u64)>, out: &mut Out| {
            for p in must[k].difference(tasks) {
                divergences += 1;
                if let Some(false) = guarded(|| confirm(api, k, p)).unwrap_or(Some(false)) {
                    out.put(json!({"sig": format!("tasks:{}:pair-not-evaluated:{}:{}", api, category(p), if k == 0 { "full-check" } else { "after-single-joint-move" }),
                        "detail": format!("pair {:?} must be evaluated (joints 0..{} unmoved): no task was enumerated AND a scene in which exactly this pair overlaps is not reported / its offset is offered; {}", p, k, desc), "data": desc}));
                }
            }
            for p in tasks.difference(&relevant) {
                // evaluating an irrelevant pair is harmless unless it is also reported (judged by Trace_Collision)
                let _ = p;
                divergences += 1;
            }
        };
        // (0) the safety distance of every relevant pair, in either argument order, is the spec's Rmin
        {
            let sd = safety_from(&line["table"], 0, 0, CheckMode::AllCollsions);
            for t in line["rmin"].as_array().unwrap() {
                let (a, b, want) = (t[0].as_u64().unwrap() as u16, t[1].as_u64().unwrap() as u16, t[2].as_i64().unwrap());
                let want_f = if want <= -1_000_000 { NEVER_COLLIDES } else { want as f32 / 1e6 };
                let (g1, g2) = (*sd.min_distance(a, b), *sd.min_distance(b, a));
                evals += 1;
                if g1 != want_f || g2 != want_f {
                    out.put(json!({"sig": format!("tasks:min_distance-differs:{}", category(&(a as u64, b as u64))),
                        "detail": format!("min_distance({},{}) = {} / reversed {} expected {}; {}", a, b, g1, g2, want_f, desc), "data": desc}));
                }
            }
        }
        // (a) body table; collision_details = full check
        let body = scene::build(&sc, &kin, &q0, &Isometry3::identity(), safety_from(&line["table"], 0, 0, CheckMode::AllCollsions));
        verif_hooks::start();
        let _ = body.collision_details(&q0, &kin);
        let ev = drain_tasks();
        evals += 1;
        if ev.len() != 1 { out.put(json!({"sig": "tasks:hook-events", "detail": format!("{} task events for one collision_details call", ev.len())})); }
        else { judge("collision_details", 0, &ev[0].1, &mut out); }
        // collides(): same enumeration
        verif_hooks::start();
        let _ = body.collides(&q0, &kin);
        let ev = drain_tasks();
        evals += 1;
        if ev.len() == 1 { judge("collides", 0, &ev[0].1, &mut out); }
        // (b) near(): the passed table decides; the body's own table is the opposite extreme
        let own = if id % 2 == 0 { json!([]) } else { json!([[0, 2, -1000000], [3, BASE, -1000000], [1, TOOL, -1000000], [5, ENV0, -1000000]]) };
        let body2 = scene::build(&sc, &kin, &q0, &Isometry3::identity(), safety_from(&own, 0, 0, CheckMode::AllCollsions));
        let custom = safety_from(&line["table"], 0, 0, CheckMode::AllCollsions);
        verif_hooks::start();
        let _ = body2.near(&q0, &kin, &custom);
        let ev = drain_tasks();
        evals += 1;
        if ev.len() == 1 { judge(if id % 2 == 0 { "near" } else { "near-with-other-body-table" }, 0, &ev[0].1, &mut out); }
        // (c) non_colliding_offsets: one enumeration per candidate, skip = joints before the moved one
        let from: Joints = std::array::from_fn(|i| q0[i] - 0.3);
        let to: Joints = std::array::from_fn(|i| q0[i] + 0.3);
        verif_hooks::start();
        let _ = body.non_colliding_offsets(&q0, &from, &to, &kin);
        let ev = drain_tasks();
        evals += 1;
        if ev.len() != 12 { out.put(json!({"sig": "tasks:offsets-hook-events", "detail": format!("{} task events for 12 candidates", ev.len())})); }
        for (skip, tasks) in &ev {
            let k = skip.len();
            if *skip != (0..k as u64).collect::<Vec<_>>() || k > 5 {
                out.put(json!({"sig": "tasks:offsets:unexpected-skip-set", "detail": format!("{:?}", skip)}));
                continue;
            }
            judge("non_colliding_offsets", k, tasks, &mut out);
        }
        if id == 3 { out.put(json!({"sample": {"config": desc, "must_full": line["must"][0], "must_after_J4_moved": line["must"][3]}})); }
    }
    out.put(json!({"stats": {"lines": lines.len(), "evaluations": evals, "nontrivial": nontrivial, "divergences": divergences}}));
    out.finish();
}

// ------------------------------------------------------------------------------------------------
fn um(x: f64) -> i64 { (x * 1e6).round() as i64 }

pub struct Case {
    pub scene: Scene,
    pub table: Vec<(usize, usize, i64)>,
    pub def_env_um: i64,
    pub def_robot_um: i64,
    pub class: String,
}

fn relevant_pairs(tool: bool, base: bool, nenv: usize) -> Vec<(usize, usize)> {
    let mut v = Vec::new();
    for i in 0..6 { for j in (i + 2)..6 { v.push((i, j)); } }
    for i in 0..6 { for k in 0..nenv { v.push((i, ENV0 + k)); } }
    if tool { for k in 0..nenv { v.push((TOOL, ENV0 + k)); } for i in 0..4 { v.push((i, TOOL)); } }
    if base { for i in 1..6 { v.push((i, BASE)); } }
    if tool && base { v.push((TOOL, BASE)); }
    v
}

/// constructive cases: one or two close pairs at chosen gaps relative to that pair's safety distance
fn make_case(r: &mut rand::rngs::StdRng, k: usize) -> Case {
    // (the directed family k % 10 == 5 needs every body category to be present)
    let tool = k % 4 != 3 || k % 10 == 5;
    let base = k % 5 != 4 || k % 10 == 5;
    let nenv = if k % 10 == 5 { 1 + k % 2 } else { k % 3 };
    let mut scene = Scene::spread(tool, base, nenv);
    let rel = relevant_pairs(tool, base, nenv);
    let mut table: Vec<(usize, usize, i64)> = Vec::new();
    let defaults = [(0i64, 0i64), (50_000, 0), (50_000, 30_000), (0, 20_000)][k % 4];
    let mut class = String::new();
    // vertex count / size classes of the pre-filter's case split
    for i in 0..scene.ids.len() { scene.rich[i] = r.gen_bool(0.4); }
    let n_close = 1 + (k / 3) % 2;
    let mut used: Vec<usize> = Vec::new();
    for c in 0..n_close {
        // candidate pairs: relevant ones, but also adjacent links (irrelevant: must never be reported)
        // directed family (k % 10 == 5): one pair of a chosen category, cycling through all six, incl. tool-base
        let cats = ["link-link", "link-env", "tool-env", "tool-link", "base-link", "tool-base"];
        let directed: Vec<(usize, usize)> = if k % 10 == 5 && c == 0 {
            let want = cats[(k / 10) % 6];
            rel.iter().cloned().filter(|p| category(&(p.0.min(p.1) as u64, p.0.max(p.1) as u64)) == want).collect()
        } else { vec![] };
        let (a, b) = if !directed.is_empty() { *pick(r, &directed) } else if k % 11 == 10 && c == 0 { let i = r.gen_range(0..5); (i, i + 1) } else { *pick(r, &rel) };
        if used.contains(&a) || used.contains(&b) { continue; }
        used.push(a);
        used.push(b);
        // per-pair override?
        // (forced family, k = 7 mod 10: a pair with a distance of its own, the big body aligned with its own frame and
        //  coarser than the tiny one: above a face, off a corner, above a plate - in turn)
        let forced = k % 10 == 7 && c == 0;
        let ov = if !directed.is_empty() { 0 } else if forced { let _ = r.gen_range(0..5); 1 } else { r.gen_range(0..5) };   // directed: NEVER_COLLIDES on the pair
        let key = if r.gen_bool(0.5) { (a, b) } else { (b, a) };
        match ov {
            0 => table.push((key.0, key.1, -1_000_000)),
            1 => table.push((key.0, key.1, 80_000)),
            2 => table.push((key.0, key.1, 0)),
            _ => {}
        }
        let rmin = table.iter().find(|t| (t.0 == a && t.1 == b) || (t.0 == b && t.1 == a)).map(|t| t.2)
            .unwrap_or(if a >= ENV0 || b >= ENV0 { defaults.0 } else { defaults.1 });
        // size classes: tiny cube next to a big block exercises containment in the loosened box
        let size = r.gen_range(0..6);
        let (ia, ib) = (scene.idx(a), scene.idx(b));
        match size {
            0 => { scene.boxes[ia].h = [1.0, 1.0, 1.0]; scene.boxes[ib].h = [0.005, 0.005, 0.005]; }
            1 => { scene.boxes[ib].h = [0.8, 0.6, 0.7]; scene.boxes[ia].h = [0.01, 0.01, 0.01]; }
            2 => { scene.boxes[ia].h = [0.3, 0.05, 0.2]; scene.boxes[ib].h = [0.25, 0.04, 0.3]; }
            // a large flat plate and a rod: bodies whose corners are far from their centres
            4 => { scene.boxes[ia].h = [0.5, 0.02, 0.5]; scene.boxes[ib].h = [0.03, 0.03, 0.03]; }
            5 => { scene.boxes[ia].h = [0.04, 0.03, 0.6]; scene.boxes[ib].h = [0.4, 0.03, 0.05]; }
            _ => {}
        }
        let rm = rmin.max(0) as f64 / 1e6;
        // directed family: a small, finer-meshed body entirely inside the safety shell of a big coarse one (and the
        // reverse vertex-count assignment): the pre-filter's containment case
        let contained = (k % 4 == 1 || forced) && rmin > 20_000 && c == 0;
        if contained {
            let (big, tiny) = if r.gen_bool(0.5) { (ia, ib) } else { (ib, ia) };
            scene.boxes[big].h = [0.6, 0.5, 0.7];
            scene.boxes[tiny].h = [0.004, 0.004, 0.004];
            let fine_tiny = r.gen_bool(0.7) || forced;
            scene.rich[tiny] = fine_tiny;
            scene.rich[big] = !fine_tiny;
        }
        if contained && ((k / 4) % 4 != 0 || forced) {
            // tight local bounding box: the big body aligned with its own frame (robot part or environment object), the
            // tiny one hovering inside the shell: above a face; off a corner, inside the shell along every axis but further
            // away than the safety distance; above a plate without thickness
            let (big, tiny) = if scene.boxes[ia].h[0] > 0.1 { (a, b) } else { (b, a) };
            scene.aligned_pair = Some(match if forced { 1 + (k / 10) % 3 } else { (k / 4) % 4 } { 1 => (big, tiny, rm * 0.3, 0), 2 => (big, tiny, rm * 0.8, 1), _ => (big, tiny, rm * 0.3, 2) });
        }
        let gap = if !directed.is_empty() { -0.004 } else if contained { rm * 0.45 } else { match r.gen_range(0..5) {
            0 => -0.004,                 // overlapping
            1 => (rm - 0.005).max(0.002), // inside the safety distance (or just apart for touch-only)
            2 => rm + 0.005,             // just outside
            3 => rm * 0.4 + 0.001,       // well inside
            _ => rm + 0.3,               // far
        } };
        // (four placements in ten are at a corner of the first body instead of the middle of its face)
        let corner = !contained && r.gen_bool(0.4);
        if corner { scene.place_at_corner(a, b, gap, if r.gen_bool(0.5) { 1.0 } else { -1.0 }, if r.gen_bool(0.5) { 1.0 } else { -1.0 }); } else { scene.place_next(a, b, gap); }
        class.push_str(&format!("{}{}:size{}{}:{};", if c > 0 { "+" } else { "" }, category(&(a.min(b) as u64, a.max(b) as u64)), size, if corner { "c" } else { "" },
            if rmin <= -1_000_000 { "never" } else if rmin == 0 { "touch" } else { "distance" }));
    }
    // unrelated NEVER entries, incl. pairs naming J1 that must not hide base pairs
    if k % 6 == 0 { table.push((0, 2, -1_000_000)); }
    if k % 9 == 0 { table.push((3, 0, -1_000_000)); }
    Case { scene, table, def_env_um: defaults.0, def_robot_um: defaults.1, class }
}

fn table_json(t: &[(usize, usize, i64)]) -> Value { json!(t.iter().map(|x| json!([x.0, x.1, x.2])).collect::<Vec<_>>()) }

fn pairs_json(b: &[(usize, usize, i64, bool)]) -> Value {
    json!(b.iter().map(|x| json!({"a": x.0, "b": x.1, "d": x.2, "touch": x.3})).collect::<Vec<_>>())
}

/// B2: verdict events on constructive scenes under several rayon pool sizes
pub fn record_geometry(output: &str) {
    quiet_panics();
    let mut out = Out::create(output);
    let mut r = rng(1010);
    let n = if thorough() { 1500 } else { 220 };
    let mut last_q0: Joints = [0.0; 6];
    for k in 0..n {
        // (the cases at the joint vector of the preceding case ask first on the recording thread itself, where the
        //  preceding robot was asked last)
        let mut pools = pools_for(k, if thorough() { 5 } else { 3 });
        if k % 4 == 3 { pools.insert(0, 0); }
        // every second case asks through a tool wrapper (any transform): a tool does not move the links, so the bodies
        // are still where the bare robot's link poses put them (the scene and the brute-force distances use those)
        // (the cases that stand at the joint vector of the preceding case do so on a robot that stands elsewhere, on a
        //  turned and displaced base: where the links are is a matter of the robot that is asked)
        let inner: std::sync::Arc<dyn Kinematics> = if k % 4 == 3 {
            std::sync::Arc::new(rs_opw_kinematics::tool::Base { robot: std::sync::Arc::new(robot()), base: Isometry3::new(nalgebra::Vector3::new(r.gen_range(-1.0..1.0), r.gen_range(-1.0..1.0), r.gen_range(-0.3..0.3)), nalgebra::Vector3::new(0.0, 0.0, r.gen_range(-2.0..2.0))) })
        } else { std::sync::Arc::new(robot()) };
        let kin_here: &dyn Kinematics = inner.as_ref();
        let tooled: Box<dyn Kinematics> = if k % 2 == 1 {
            Box::new(rs_opw_kinematics::tool::Tool { robot: inner.clone(), tool: Isometry3::new(nalgebra::Vector3::new(r.gen_range(-0.2..0.2), r.gen_range(-0.2..0.2), r.gen_range(0.0..0.3)), nalgebra::Vector3::new(r.gen_range(-1.0..1.0), r.gen_range(-1.0..1.0), r.gen_range(-1.0..1.0))) })
        } else { Box::new(rs_opw_kinematics::tool::Tool { robot: inner.clone(), tool: Isometry3::identity() }) };
        let asked: &dyn Kinematics = tooled.as_ref();
        let case = make_case(&mut r, k);
        // (one case in four stands at the very joint vector of the preceding case: another body, the same joints)
        // (one case in three anywhere within two turns: link orientations beyond half a turn from the zero position)
        let q0: Joints = if k % 4 == 3 { last_q0 } else if k % 3 == 1 { std::array::from_fn(|_| r.gen_range(-6.28..6.28)) } else { std::array::from_fn(|_| r.gen_range(-1.0..1.0)) };
        last_q0 = q0;
        let tj = table_json(&case.table);
        let has_tool = case.scene.ids.contains(&TOOL);
        let has_base = case.scene.ids.contains(&BASE);
        let nenv = case.scene.ids.iter().filter(|x| **x >= ENV0).count();
        let base_pose = Isometry3::new(nalgebra::Vector3::new(0.0, 0.0, -0.4), nalgebra::Vector3::new(0.0, 0.0, 0.3));
        for (mode_name, mode) in [("all", CheckMode::AllCollsions), ("first", CheckMode::FirstCollisionOnly), ("nocheck", CheckMode::NoCheck)] {
            if mode_name == "nocheck" && k % 10 != 0 { continue; }
            let mut body = scene::build(&case.scene, kin_here, &q0, &base_pose, safety_from(&tj, case.def_env_um, case.def_robot_um, mode));
            // one cell in three was asked once while its environment objects still stood ten metres away (and with all
            // distances zero); they are then moved into place through their public pose field and the distances are set
            if k % 3 == 2 && nenv > 0 {
                let (poses, safety): (Vec<_>, _) = (body.collision_environment.iter().map(|e| e.pose).collect(), body.safety.clone());
                for e in body.collision_environment.iter_mut() { e.pose.translation.vector.x += 10.0; }
                body.safety.to_environment = 0.0;
                let _ = guarded(|| (body.collides(&q0, asked), body.collision_details(&q0, asked)));
                for (e, p) in body.collision_environment.iter_mut().zip(poses) { e.pose = p; }
                body.safety = safety;
            }
            let brute = scene::brute(&body, kin_here, &q0);
            for &pool in &pools {
                let base = json!({"ev": "collision", "pool": pool, "mode": mode_name, "tool": has_tool, "base": has_base, "nenv": nenv,
                    "table": tj, "def_env": case.def_env_um, "def_robot": case.def_robot_um, "pairs": pairs_json(&brute), "class": case.class, "case": k});
                let rep = guarded(|| in_pool(pool, || (body.collides(&q0, asked), body.collision_details(&q0, asked))));
                let mut e = base.clone();
                match rep {
                    None => { e["api"] = json!("collision_details"); e["outcome"] = json!("panic"); e["report"] = json!([]); e["verdict"] = json!(false); out.put(e); }
                    Some((c, d)) => {
                        e["api"] = json!("collision_details");
                        e["outcome"] = json!("ok");
                        e["report"] = json!(d.iter().map(|p| json!([p.0.min(p.1), p.0.max(p.1)])).collect::<Vec<_>>());
                        e["verdict"] = json!(c);
                        out.put(e);
                    }
                }
            }
            // one cell in five (with tool and base) is that of a robot with shape built by the library's constructor with all
            // distances zero; the distances, the table entries and the mode are then assigned through the public fields
            // (identity base and tool transforms: the links stand where the plain robot's do)
            if k % 5 == 1 && k % 4 != 3 && has_tool && has_base && mode_name != "nocheck" {
                let real = safety_from(&tj, case.def_env_um, case.def_robot_um, mode);
                let zero = SafetyDistances { to_environment: 0.0, to_robot_default: 0.0, special_distances: HashMap::new(), mode: CheckMode::AllCollsions };
                let b0 = scene::build(&case.scene, kin_here, &q0, &Isometry3::identity(), zero.clone());
                let RobotBody { joint_meshes, tool, base, collision_environment, .. } = b0;
                if let (Some(tool), Some(base)) = (tool, base) {
                    let built = guarded(|| rs_opw_kinematics::kinematics_with_shape::KinematicsWithShape::with_safety(Parameters::irb2400_10(), Constraints::new([-3.0; 6], [3.0; 6], BY_PREV),
                        joint_meshes, base.mesh, Isometry3::identity(), tool, Isometry3::identity(), collision_environment, zero));
                    if let Some(mut kws) = built {
                        kws.body.safety.to_environment = real.to_environment;
                        kws.body.safety.to_robot_default = real.to_robot_default;
                        for (pair, d) in &real.special_distances { kws.body.safety.special_distances.insert(*pair, *d); }
                        kws.body.safety.mode = mode;
                        let brute2 = scene::brute(&kws.body, kin_here, &q0);
                        let mut e = json!({"ev": "collision", "pool": 0, "mode": mode_name, "tool": has_tool, "base": has_base, "nenv": nenv,
                            "table": tj, "def_env": case.def_env_um, "def_robot": case.def_robot_um, "pairs": pairs_json(&brute2), "class": case.class, "case": k, "api": "collision_details"});
                        match guarded(|| (kws.collides(&q0), kws.collision_details(&q0))) {
                            None => { e["outcome"] = json!("panic"); e["report"] = json!([]); e["verdict"] = json!(false); }
                            Some((c, d)) => { e["outcome"] = json!("ok"); e["report"] = json!(d.iter().map(|p| json!([p.0.min(p.1), p.0.max(p.1)])).collect::<Vec<_>>()); e["verdict"] = json!(c); }
                        }
                        out.put(e);
                    }
                }
            }
            // near(): a custom table with the same exemptions but its own distances, on a body that has only the exemptions
            if k % 2 == 0 {
                // the check mode that counts is the one of the PASSED safety distances; the body's own differs
                let own: Vec<(usize, usize, i64)> = case.table.iter().filter(|t| t.2 <= -1_000_000).cloned().collect();
                let body_mode = match mode_name { "all" => [CheckMode::FirstCollisionOnly, CheckMode::NoCheck][(k / 2) % 2], "first" => CheckMode::AllCollsions, _ => CheckMode::AllCollsions };
                let body2 = scene::build(&case.scene, kin_here, &q0, &base_pose, safety_from(&table_json(&own), 0, 0, body_mode));
                let custom = safety_from(&tj, case.def_env_um, case.def_robot_um, mode);
                let rep = guarded(|| in_pool(4, || body2.near(&q0, asked, &custom)));
                let mut e = json!({"ev": "collision", "pool": 4, "mode": mode_name, "tool": has_tool, "base": has_base, "nenv": nenv,
                    "table": tj, "def_env": case.def_env_um, "def_robot": case.def_robot_um, "pairs": pairs_json(&brute), "class": case.class, "case": k, "api": "near", "verdict": false});
                match rep {
                    None => { e["outcome"] = json!("panic"); e["report"] = json!([]); }
                    Some(d) => { e["outcome"] = json!("ok"); e["report"] = json!(d.iter().map(|p| json!([p.0.min(p.1), p.0.max(p.1)])).collect::<Vec<_>>()); e["verdict"] = json!(!d.is_empty()); }
                }
                out.put(e);
            }
            // (every case ends with a question on the recording thread)
            let _ = guarded(|| (body.collides(&q0, asked), body.collision_details(&q0, asked)));
        }
    }
    rx160_cases(&mut out, &mut r);
    out.finish();
}

/// The bundled Staubli RX160 meshes (83 kB .. 741 kB STL files, thousands of triangles each) on the RX160 kinematics,
/// with boxes of 12 vertices scattered around the arm: meshes of very different vertex counts, real self-distances.
fn rx160_cases(out: &mut Out, r: &mut rand::rngs::StdRng) {
    let repo = std::env::var("VERIF_REPO").unwrap_or_else(|_| "/repo".into());
    let dir = format!("{}/src/tests/data/staubli/rx160", repo);
    #[allow(deprecated)]
    let load = |name: &str| guarded(|| rs_opw_kinematics::read_trimesh::load_trimesh_from_stl(&format!("{}/{}", dir, name)));
    let mut links = Vec::new();
    for i in 1..=6 { match load(&format!("link_{}.stl", i)) { Some(m) => links.push(m), None => return } }
    let Some(base_mesh) = load("base_link.stl") else { return };
    let kin = OPWKinematics::new(Parameters::staubli_rx160());
    let n = if thorough() { 60 } else { 8 };
    for k in 0..n {
        let q0: Joints = std::array::from_fn(|i| r.gen_range(-1.0..1.0) * [2.5, 1.8, 2.2, 3.0, 2.0, 3.0][i]);
        let poses = kin.forward_with_joint_poses(&q0);
        // boxes near randomly chosen links: 5 to 60 cm from the link origin
        let nenv = 1 + k % 3;
        let env: Vec<CollisionBody> = (0..nenv).map(|_| {
            let o = poses[r.gen_range(1..6)].translation.vector;
            let d = r.gen_range(0.05..0.6);
            let dir = [r.gen_range(-1.0..1.0), r.gen_range(-1.0..1.0), r.gen_range(-1.0..1.0f64)];
            let nn = (dir[0] * dir[0] + dir[1] * dir[1] + dir[2] * dir[2]).sqrt().max(1e-3);
            let b = WBox { c: [o.x + d * dir[0] / nn, o.y + d * dir[1] / nn, o.z + d * dir[2] / nn], h: [0.03, 0.05, 0.04] };
            let pose = Isometry3::new(nalgebra::Vector3::new(0.1, -0.2, 0.05), nalgebra::Vector3::new(0.0, 0.2, 0.4));
            CollisionBody { mesh: scene::local_mesh(&b, false, &pose), pose: pose.cast() }
        }).collect();
        // adjacent real links overlap at the joints and are never compared; (J1, J3) and base-J2 style pairs are real
        let table: Vec<(usize, usize, i64)> = if k % 2 == 0 { vec![] } else { vec![(0, 2, -1_000_000), (1, BASE, 30_000)] };
        let (def_env, def_robot) = [(0i64, 0i64), (50_000, 10_000)][k % 2];
        let tj = table_json(&table);
        for (mode_name, mode) in [("all", CheckMode::AllCollsions), ("first", CheckMode::FirstCollisionOnly)] {
            let body = RobotBody {
                joint_meshes: std::array::from_fn(|i| links[i].clone()),
                tool: None,
                base: Some(BaseBody { mesh: base_mesh.clone(), base_pose: Isometry3::identity() }),
                collision_environment: env.iter().map(|e| CollisionBody { mesh: e.mesh.clone(), pose: e.pose }).collect(),
                safety: safety_from(&tj, def_env, def_robot, mode),
            };
            let brute = scene::brute(&body, &kin, &q0);
            for &pool in &pools_for(k, 2) {
                let mut e = json!({"ev": "collision", "pool": pool, "mode": mode_name, "tool": false, "base": true, "nenv": nenv,
                    "table": tj, "def_env": def_env, "def_robot": def_robot, "pairs": pairs_json(&brute), "class": "rx160-meshes", "case": 100_000 + k, "api": "collision_details"});
                match guarded(|| in_pool(pool, || (body.collides(&q0, &kin), body.collision_details(&q0, &kin)))) {
                    None => { e["outcome"] = json!("panic"); e["report"] = json!([]); e["verdict"] = json!(false); }
                    Some((c, d)) => {
                        e["outcome"] = json!("ok");
                        e["report"] = json!(d.iter().map(|p| json!([p.0.min(p.1), p.0.max(p.1)])).collect::<Vec<_>>());
                        e["verdict"] = json!(c);
                    }
                }
                out.put(e);
            }
        }
    }
}

// ------------------------------------------------------------------------------------------------
/// C14: single joint offsets on scenes where, at a candidate vector, a chosen pair is at a chosen gap
pub fn record_offsets(output: &str) {
    quiet_panics();
    let mut out = Out::create(output);
    let mut r = rng(1414);
    let n = if thorough() { 1200 } else { 240 };
    let mut made = 0;
    let mut tries = 0;
    let mut last_vectors: Option<(Joints, Joints, Joints)> = None;
    while made < n && tries < n * 30 {
        tries += 1;
        let tool = tries % 4 != 3;
        let base = tries % 5 != 4;
        let nenv = tries % 3;
        let mut lim_from: Joints = std::array::from_fn(|_| r.gen_range(-2.8..-1.0));
        let mut lim_to: Joints = std::array::from_fn(|_| r.gen_range(1.0..2.8));
        let two_pi = 2.0 * std::f64::consts::PI;
        // limit representation classes: same arcs written as wrap-around ranges (from > to) on some joints
        if tries % 3 == 1 { for i in 0..6 { if r.gen_bool(0.4) { lim_from[i] += two_pi; } } }
        // (every second robot has its limits written in degrees)
        // (every second robot has its limits written in degrees; one in six got them in two steps: constructed with
        //  upper bounds that are half a radian too generous on some joints, then narrowed with update_range)
        let limits = if tries % 2 == 1 { Constraints::from_degrees(std::array::from_fn(|i| lim_from[i].to_degrees()..=lim_to[i].to_degrees()), BY_PREV) }
                     else if tries % 6 == 2 {
                         let mut c = Constraints::new(lim_from, std::array::from_fn(|i| lim_to[i] + if i % 2 == 0 { 0.5 } else { 0.0 }), BY_PREV);
                         c.update_range(lim_from, lim_to);
                         c
                     }
                     else { Constraints::new(lim_from, lim_to, BY_PREV) };
        let plain = OPWKinematics::new_with_constraints(Parameters::irb2400_10(), limits);
        // every fourth robot is parallelogram coupled (J2 drives J3): the links behind a moved joint then do NOT move
        // as one rigid group
        let coupled = tries % 4 == 3;
        let kin_arc: std::sync::Arc<dyn Kinematics> = if coupled {
            std::sync::Arc::new(rs_opw_kinematics::parallelogram::Parallelogram { robot: std::sync::Arc::new(plain), scaling: 1.0, driven: 1, coupled: 2 })
        } else { std::sync::Arc::new(plain) };
        let kin: &dyn Kinematics = kin_arc.as_ref();
        let lo = |i: usize| if lim_from[i] > lim_to[i] { lim_from[i] - two_pi } else { lim_from[i] };
        let mut initial: Joints = std::array::from_fn(|i| r.gen_range(lo(i) * 0.5..lim_to[i] * 0.5));
        // an initial vector that violates the limits in one joint: only replacing THAT joint can give a legal vector
        if tries % 5 == 3 { let m = r.gen_range(0..6); initial[m] = lim_to[m] + 0.3; }
        // joint values on another 2 pi branch (same posture, still legal modulo 2 pi)
        if tries % 4 == 2 { for i in 0..6 { if r.gen_bool(0.3) { initial[i] += if initial[i] > 0.0 { -two_pi } else { two_pi }; } } }
        // from / to vectors: mostly inside the limits, sometimes outside (must be withheld)
        let mut from: Joints = std::array::from_fn(|i| if r.gen_bool(0.15) { lo(i) - 0.2 } else { initial[i] - r.gen_range(0.2..0.8) });
        let mut to: Joints = std::array::from_fn(|i| if r.gen_bool(0.15) { lim_to[i] + 0.2 } else { initial[i] + r.gen_range(0.2..0.8) });
        // the candidate at which a pair is brought together
        // (on a coupled robot the driven joint is tweaked in six cases of ten: the links behind it then do not move as
        //  one rigid group, which is what the pair selection below looks at)
        let j = if coupled && r.gen_bool(0.6) { 1 } else { r.gen_range(0..6) };
        // every third case: one other joint already stands at its 'from' or 'to' value (a step clipped at a limit): that
        // candidate is the initial vector itself, free and (if the initial vector is) legal
        if tries % 3 == 2 {
            let z = (j + 1 + r.gen_range(0..5)) % 6;
            if r.gen_bool(0.5) { from[z] = initial[z]; } else { to[z] = initial[z]; }
        }
        // one case in five asks with the very vectors (initial, from, to) of the preceding case - another robot, other
        // limits, another scene: what is offered is decided by the robot that is asked
        if tries % 5 == 1 { if let Some((i0, f0, t0)) = last_vectors { initial = i0; from = f0; to = t0; } }
        let side_to = r.gen_bool(0.5);
        let mut cand = initial;
        cand[j] = if side_to { to[j] } else { from[j] };
        let mut scene = Scene::spread(tool, base, nenv);
        let rel = relevant_pairs(tool, base, nenv);
        // prefer pairs with exactly one moved member (moved: links >= j, tool)
        let moved = |x: usize| x == TOOL || (x < 6 && x >= j);
        let mixed: Vec<(usize, usize)> = rel.iter().cloned().filter(|p| moved(p.0) != moved(p.1)).collect();
        let both: Vec<(usize, usize)> = rel.iter().cloned().filter(|p| moved(p.0) && moved(p.1)).collect();
        let p_mixed = if coupled && j == 1 { 0.3 } else { 0.7 };
        let (a, b) = if !mixed.is_empty() && r.gen_bool(p_mixed) { *pick(&mut r, &mixed) } else if !both.is_empty() { *pick(&mut r, &both) } else { *pick(&mut r, &rel) };
        let defaults = [(0i64, 0i64), (40_000, 25_000)][tries % 2];
        let rmin = if a >= ENV0 || b >= ENV0 { defaults.0 } else { defaults.1 };
        let rm = rmin as f64 / 1e6;
        let gap = match r.gen_range(0..3) { 0 => -0.004, 1 => (rm - 0.005).max(0.002), _ => rm + 0.01 };
        scene.place_next(a, b, gap);
        let mut table: Vec<(usize, usize, i64)> = Vec::new();
        if tries % 7 == 0 { table.push((a, b, -1_000_000)); }
        if tries % 6 == 0 { table.push((0, 2, -1_000_000)); }
        let base_pose = Isometry3::new(nalgebra::Vector3::new(0.0, 0.0, -0.4), nalgebra::Vector3::new(0.0, 0.0, 0.3));
        // the scene is laid out for the candidate vector
        // (the mode the body is configured with: mostly first-collision, sometimes all collisions, one in nine no checking
        //  at all - then nothing collides and exactly the candidates within the limits are offered)
        let mode = match tries % 9 { 4 => CheckMode::NoCheck, 1 | 7 => CheckMode::AllCollsions, _ => CheckMode::FirstCollisionOnly };
        let body = scene::build(&scene, kin, &cand, &base_pose, safety_from(&table_json(&table), defaults.0, defaults.1, mode));
        // every second case asks through the robot with shape (kinematics + body), the others ask the body directly
        // (the robot with shape holds its kinematics the way its constructors build it: Tool(Base(robot)), both
        //  transforms the identity here, so the bodies stay where the scene put them)
        let stacked: std::sync::Arc<dyn Kinematics> = std::sync::Arc::new(rs_opw_kinematics::tool::Tool {
            robot: std::sync::Arc::new(rs_opw_kinematics::tool::Base { robot: kin_arc.clone(), base: Isometry3::identity() }), tool: Isometry3::identity() });
        let kws = crate::shape::kws_from(stacked, body);
        let body = &kws.body;
        let through_shape = tries % 2 == 0;
        // precondition of the property: the initial vector is collision free (full check, brute force as well)
        if body.collides(&initial, kin) { continue; }
        // one case in four is a fine step: the colliding candidate is moved towards the free initial vector by bisection
        // of the moved joint, and the initial vector after it, until they are 2e-4 rad (every second time: a few ulps)
        // apart - free on this side, colliding (full check) on that side, whatever the step size
        let mut initial = initial;
        if tries % 4 == 1 && body.collides(&cand, kin) {
            let (mut lo, mut hi) = (initial[j], cand[j]);
            for _ in 0..(if (tries / 4) % 2 == 0 { 12 } else { 60 }) {
                let mid = 0.5 * (lo + hi);
                if mid == lo || mid == hi { break; }
                let mut v = initial;
                v[j] = mid;
                if body.collides(&v, kin) { hi = mid; } else { lo = mid; }
            }
            initial[j] = lo;
            if side_to { to[j] = hi; } else { from[j] = hi; }
        }
        made += 1;
        last_vectors = Some((initial, from, to));
        let class = format!("{}:{}{}", category(&(a.min(b) as u64, a.max(b) as u64)), if moved(a) != moved(b) { "moved-vs-unmoved" } else if moved(a) { "both-moved" } else { "both-unmoved" }, if coupled { ":coupled" } else { "" });
        for &pool in &pools_for(made, if thorough() { 5 } else { 3 }) {
            let offered = guarded(|| in_pool(pool, || if through_shape { kws.non_colliding_offsets(&initial, &from, &to) } else { body.non_colliding_offsets(&initial, &from, &to, kin) }));
            let mut cands = Vec::new();
            let mut vecs: Vec<Joints> = Vec::new();
            for jj in 0..6 {
                for (side, tv) in [("from", &from), ("to", &to)] {
                    let mut v = initial;
                    v[jj] = tv[jj];
                    let coll = body.collides(&v, kin);
                    let bf = scene::brute(body, kin, &v);
                    cands.push(json!({"j": jj, "side": side, "q": au6(&v), "collides": coll, "min_d": bf.iter().map(|x| x.2).min().unwrap_or(0)}));
                    vecs.push(v);
                }
            }
            let mut e = json!({"ev": "offsets", "pool": pool, "cands": cands, "from": au6(&lim_from), "to": au6(&lim_to), "class": class, "moved_joint": j, "case": made, "mode": format!("{:?}", body.safety.mode)});
            match offered {
                None => { e["outcome"] = json!("panic"); e["offered"] = json!([]); }
                Some(o) => {
                    e["outcome"] = json!("ok");
                    // index (1-based) of each offered vector among the candidates; 0 = not a candidate at all
                    let idx: Vec<usize> = o.iter().map(|v| vecs.iter().position(|c| c == v).map(|p| p + 1).unwrap_or(0)).collect();
                    e["offered"] = json!(idx);
                }
            }
            out.put(e);
        }
    }
    out.finish();
}
