//! C07 / C18: joint limits and the sampler.
use crate::util::*;
use rand::Rng;
use rs_opw_kinematics::constraints::{Constraints, BY_PREV};
use serde_json::json;

const CTORS: [&str; 3] = ["new", "from_degrees", "update_range"];

fn build(ctor: &str, from: &[f64; 6], to: &[f64; 6], from_deg: &[f64; 6], to_deg: &[f64; 6]) -> Constraints {
    match ctor {
        "new" => Constraints::new(*from, *to, BY_PREV),
        "from_degrees" => Constraints::from_degrees(
            [
                from_deg[0]..=to_deg[0],
                from_deg[1]..=to_deg[1],
                from_deg[2]..=to_deg[2],
                from_deg[3]..=to_deg[3],
                from_deg[4]..=to_deg[4],
                from_deg[5]..=to_deg[5],
            ],
            BY_PREV,
        ),
        _ => {
            let mut c = Constraints::new([-0.3, 0.1, 2.0, -1.0, 0.0, 0.5], [0.2, 0.1, 1.0, 1.0, 0.0, 0.7], 0.5);
            c.update_range(*from, *to);
            c
        }
    }
}

/// B1: replay the exact lattice verdicts printed by Gen_Limits into the real constraints.
/// Output: one json line per mismatch plus a final stats line.
pub fn replay(input: &str, output: &str) {
    let lines = read_ndjson(input);
    let mut out = Out::create(output);
    let mut evals: u64 = 0;
    let mut nontrivial: u64 = 0;
    let eps = 1e-9;
    let index: std::collections::HashMap<(i64, i64, i64, i64), Vec<i64>> = lines.iter().map(|l| ((l["f"].as_i64().unwrap(), l["t"].as_i64().unwrap(), l["n"].as_i64().unwrap(), l["r"].as_i64().unwrap()), ivec(&l["acc2"]))).collect();
    for (id, line) in lines.iter().enumerate() {
        let f = line["f"].as_i64().unwrap();
        let t = line["t"].as_i64().unwrap();
        let n = line["n"].as_i64().unwrap();
        let r = line["r"].as_i64().unwrap();
        let acc2 = ivec(&line["acc2"]);
        let step_deg = 360.0 / n as f64;
        let j = id % 6;
        let mut from_deg = [-10.0; 6];
        let mut to_deg = [10.0; 6];
        from_deg[j] = f as f64 * step_deg;
        to_deg[j] = t as f64 * step_deg;
        let from: [f64; 6] = std::array::from_fn(|i| from_deg[i].to_radians());
        let to: [f64; 6] = std::array::from_fn(|i| to_deg[i].to_radians());
        let has0 = acc2.iter().any(|v| *v == 0);
        let has1 = acc2.iter().any(|v| *v == 1);
        if has0 && has1 {
            nontrivial += 1;
        }
        let class = if f == t { "equal" } else if f < t && t - f >= n { "fullturn" } else if f < t { "nowrap" } else { "wrap" };
        for ctor in CTORS {
            let c = match guarded(|| build(ctor, &from, &to, &from_deg, &to_deg)) {
                Some(c) => c,
                None => {
                    out.put(json!({"sig": format!("limits:{}:constructor-panics", ctor), "detail": format!("from={} to={} (lattice {} per turn)", f, t, n)}));
                    continue;
                }
            };
            let mut probe = |angle: f64, want: bool, what: &str, out: &mut Out| {
                let mut q = [0.0; 6];
                q[j] = angle;
                let got = c.compliant(&q);
                evals += 1;
                if got != want {
                    out.put(json!({"sig": format!("limits:{}:{}:{}", ctor, class, if want {"rejects-on-arc"} else {"accepts-off-arc"}),
                        "detail": format!("from={}deg to={}deg angle={}deg ({}) joint {} expected {} got {}", from_deg[j], to_deg[j], angle.to_degrees(), what, j + 1, want, got),
                        "data": {"from_deg": from_deg[j], "to_deg": to_deg[j], "angle_rad": angle, "joint": j, "ctor": ctor}}));
                }
            };
            let mut listed: Vec<[f64; 6]> = Vec::new();
            let mut want_kept: Vec<usize> = Vec::new();
            for (i, v) in acc2.iter().enumerate() {
                let h = i as i64 - 2 * r;
                if h.rem_euclid(2) == 0 {
                    let a = h / 2;
                    let angle = (a as f64 * step_deg).to_radians();
                    match *v {
                        0 | 1 => {
                            probe(angle, *v == 1, "lattice point", &mut out);
                            let mut q = [0.0; 6];
                            q[j] = angle;
                            if *v == 1 {
                                want_kept.push(listed.len());
                            }
                            listed.push(q);
                        }
                        3 => {
                            // exact arc end: demanded only where the float arithmetic is exact:
                            // symmetric ranges (-x, x) and (0, x) probed without added turns.
                            let exact = f < t && t - f < n && ((f == -t && (a == f || a == t)) || (f == 0 && (a == 0 || a == t)));
                            if exact {
                                probe(angle, true, "exact end of an exactly representable range", &mut out);
                            }
                        }
                        _ => {}
                    }
                } else if *v == 0 || *v == 1 {
                    let lo = (((h - 1) / 2) as f64 * step_deg).to_radians() + eps;
                    let hi = (((h + 1) / 2) as f64 * step_deg).to_radians() - eps;
                    probe(lo, *v == 1, "1e-9 above a lattice point", &mut out);
                    probe(hi, *v == 1, "1e-9 below a lattice point", &mut out);
                }
            }
            // a second set around the same centre, one lattice step wider on either side (its verdicts are those of
            // its own lattice line): the two are asked about the same vectors in turn - a verdict belongs to the set
            // that is asked, not to the vector or to the set that was asked just before
            if let Some(wider) = index.get(&(f - 1, t + 1, n, r)) {
                let mut from2 = from; let mut to2 = to; let mut fd2 = from_deg; let mut td2 = to_deg;
                fd2[j] = (f - 1) as f64 * step_deg; td2[j] = (t + 1) as f64 * step_deg;
                from2[j] = fd2[j].to_radians(); to2[j] = td2[j].to_radians();
                if let Some(c2) = guarded(|| build(ctor, &from2, &to2, &fd2, &td2)) {
                    for (i, v) in acc2.iter().enumerate() {
                        let h = i as i64 - 2 * r;
                        let v2 = wider[i];
                        if h.rem_euclid(2) != 0 || !matches!(*v, 0 | 1) || !matches!(v2, 0 | 1) || *v == v2 { continue; }
                        let mut q = [0.0; 6];
                        q[j] = ((h / 2) as f64 * step_deg).to_radians();
                        let got = (c.compliant(&q), c2.compliant(&q), c.compliant(&q), c2.filter(&vec![q]).len() == 1, c.filter(&vec![q]).len() == 1);
                        evals += 5;
                        let want = (*v == 1, v2 == 1, *v == 1, v2 == 1, *v == 1);
                        if got != want {
                            out.put(json!({"sig": format!("limits:{}:{}:verdict-depends-on-the-set-asked-before", ctor, class),
                                "detail": format!("ranges {}..{} deg and {}..{} deg (same centre) asked in turn about {} deg on joint {}: got {:?} expected {:?}", from_deg[j], to_deg[j], fd2[j], td2[j], q[j].to_degrees(), j + 1, got, want)}));
                        }
                    }
                }
            }
            // filter(): keeps exactly the accepted vectors, in order
            let kept = c.filter(&listed);
            evals += 1;
            let want: Vec<[f64; 6]> = want_kept.iter().map(|i| listed[*i]).collect();
            if kept != want {
                out.put(json!({"sig": format!("limits:{}:{}:filter-differs", ctor, class),
                    "detail": format!("from={}deg to={}deg: filter kept {} of {} lattice vectors, expected {}", from_deg[j], to_deg[j], kept.len(), listed.len(), want.len())}));
            }
        }
    }
    out.put(json!({"stats": {"lines": lines.len(), "evaluations": evals, "nontrivial": nontrivial}}));
    out.finish();
}

fn draw_range(r: &mut rand::rngs::StdRng, bound: i64) -> (i64, i64, &'static str) {
    // classes of (from, to) in AU within +-bound
    let k = r.gen_range(0..8);
    let w = |r: &mut rand::rngs::StdRng, lo: i64, hi: i64| r.gen_range(lo..=hi);
    match k {
        0 => { let f = w(r, -bound, bound - 200_000); (f, w(r, f + 1000, (f + 300_000).min(bound)), "narrow") }
        1 => { let f = w(r, -bound, 0); (f, w(r, f + 300_000, (f + N_AU - 1).min(bound)), "wide") }
        2 => { let f = w(r, -bound, bound); (f, f, "equal") }
        3 => { let f = w(r, -bound, -N_AU); (f, w(r, f + N_AU, bound), "fullturn") }
        4 => { // wrap, both positive
            let t = w(r, 0, bound - 1000); (w(r, t + 1, bound), t, "wrap-pos") }
        5 => { let f = w(r, -bound + 1000, 0); (f, w(r, -bound, f - 1), "wrap-neg") }
        6 => { let f = w(r, 1, bound); (f, w(r, -bound, -1), "wrap-straddle") }
        _ => { let f = w(r, -bound, bound); let t = w(r, -bound, bound); (f, t, "any") }
    }
}

fn arc_len(f: i64, t: i64) -> i64 {
    if f == t { N_AU } else if f < t { (t - f).min(N_AU) } else { (t - f).rem_euclid(N_AU) }
}

fn draw_angle(r: &mut rand::rngs::StdRng, f: i64, t: i64, bound: i64) -> i64 {
    let len = arc_len(f, t);
    let k = r.gen_range(0..10);
    let base = match k {
        0..=3 => f + r.gen_range(0..=len.max(1) - 1).min(len),              // inside
        4 | 5 => f + len + r.gen_range(1..=(N_AU - len).max(2) - 1),        // outside (if any)
        6 => f + 5,                                                          // just inside the start
        7 => f - 5,                                                          // just outside the start
        8 => f + len - 5,
        _ => f + len + 5,
    };
    let turns = r.gen_range(-2..=2);
    let mut a = base + turns * N_AU;
    while a > bound { a -= N_AU; }
    while a < -bound { a += N_AU; }
    a
}

/// B2 for C07: compliant / filter / centre events for random real limits.
pub fn record_limits(output: &str) {
    let mut out = Out::create(output);
    let mut r = rng(7);
    let n = if thorough() { 200_000 } else { 20_000 };
    let bound = 2 * N_AU; // +-4 pi
    for k in 0..n {
        let mut from = [0i64; 6];
        let mut to = [0i64; 6];
        let mut a = [0i64; 6];
        let focus = k % 6;
        for j in 0..6 {
            let (f, t, _) = draw_range(&mut r, bound);
            from[j] = f;
            to[j] = t;
            a[j] = if j == focus || r.gen_bool(0.15) { draw_angle(&mut r, f, t, bound) } else { f + arc_len(f, t) / 2 };
        }
        let ctor = CTORS[k % 3];
        let fr = rad6(&from);
        let tr = rad6(&to);
        let fd: [f64; 6] = std::array::from_fn(|i| from[i] as f64 / 1e4);
        let td: [f64; 6] = std::array::from_fn(|i| to[i] as f64 / 1e4);
        let c = build(ctor, &fr, &tr, &fd, &td);
        match k % 10 {
            0 => {
                // filter over a list
                let mut list = Vec::new();
                let mut list_au = Vec::new();
                for _ in 0..8 {
                    let mut q = [0i64; 6];
                    for j in 0..6 {
                        q[j] = if r.gen_bool(0.2) { draw_angle(&mut r, from[j], to[j], bound) } else { from[j] + arc_len(from[j], to[j]) / 2 };
                    }
                    list.push(rad6(&q));
                    list_au.push(q.to_vec());
                }
                let kept = c.filter(&list);
                // indices (1-based) of kept elements, matched in order
                let mut idx = Vec::new();
                let mut pos = 0;
                for kq in &kept {
                    while pos < list.len() && &list[pos] != kq { pos += 1; }
                    idx.push(pos + 1);
                    pos += 1;
                }
                out.put(json!({"ev": "filter", "from": from, "to": to, "list": list_au, "kept": idx, "ctor": ctor}));
            }
            1 => {
                let acc = c.compliant(&c.centers);
                out.put(json!({"ev": "centre", "from": from, "to": to, "c": au6(&c.centers), "acc": acc, "ctor": ctor}));
            }
            _ => {
                let acc = c.compliant(&rad6(&a));
                out.put(json!({"ev": "compliant", "from": from, "to": to, "a": a, "acc": acc, "ctor": ctor}));
            }
        }
    }
    record_near_end(&mut out);
    out.finish();
}

/// B2 for C07: random REAL limits (not on any lattice, not representable in single precision) probed 1e-9 rad
/// inside and outside both arc ends, through all three constructors. The side is known by construction; TLC
/// demands acc <=> side = "inside" (Trace_Limits!JudgeNearEnd).
pub fn record_near_end(out: &mut Out) {
    let mut r = rng(707);
    let n = if thorough() { 40_000 } else { 4_000 };
    let two_pi = 2.0 * std::f64::consts::PI;
    for k in 0..n {
        let f = r.gen_range(-2.0 * two_pi..2.0 * two_pi);
        // (one arc in four is narrow: 1e-8 .. 1e-2 rad - distinct limits, however close, are limits)
        let narrow = k % 4 == 1;
        let len = if narrow { 10f64.powf(r.gen_range(-8.0..-2.0)) } else { r.gen_range(0.01..two_pi - 0.01) };
        // ordinary range (to = from + len) or the same arc written as a wrap-around range (to below from)
        let wrap = k % 3 == 2;
        let t = if wrap { f + len - two_pi } else { f + len };
        let j = k % 6;
        let mut from = [-1.0; 6];
        let mut to = [1.0; 6];
        from[j] = f;
        to[j] = t;
        let from_deg: [f64; 6] = std::array::from_fn(|i| from[i].to_degrees());
        let to_deg: [f64; 6] = std::array::from_fn(|i| to[i].to_degrees());
        let ctor = CTORS[(k / 6) % 3];
        // from_degrees gets degrees; compare against the radian value those degrees stand for
        let (f_eff, len_eff) = if ctor == "from_degrees" { (from_deg[j].to_radians(), (to_deg[j].to_radians() - from_deg[j].to_radians()).rem_euclid(two_pi)) } else { (f, len) };
        let c = build(ctor, &from, &to, &from_deg, &to_deg);
        let turns = r.gen_range(-1..=1) as f64 * two_pi;
        let d_in = (len_eff / 4.0).min(1e-9);
        let mut probes = vec![("from", "outside", f_eff - 1e-9), ("from", "inside", f_eff + d_in), ("to", "inside", f_eff + len_eff - d_in), ("to", "outside", f_eff + len_eff + 1e-9)];
        // far from a narrow arc: half a radian beyond it
        if narrow { probes.push(("to", "outside", f_eff + len_eff + 0.5)); probes.push(("from", "outside", f_eff - 0.5)); }
        for (end, side, angle) in probes {
            let mut q = [0.0; 6];
            q[j] = angle + turns;
            out.put(json!({"ev": "near-end", "ctor": ctor, "end": end, "side": side, "acc": c.compliant(&q), "wrap": wrap, "narrow": narrow,
                "from_deg": from_deg[j], "to_deg": to_deg[j], "angle_rad": q[j]}));
        }
    }
}

/// B2 for C18: sampler events. Lattice (15 degree) and random limits in +-2 pi, many draws each.
pub fn record_samples(output: &str) {
    quiet_panics();
    let mut out = Out::create(output);
    let mut r = rng(18);
    let draws = if thorough() { 60 } else { 8 };
    let step = 150_000i64; // 15 degrees in AU
    let k = N_AU / step;   // 24
    let mut sets: Vec<([i64; 6], [i64; 6])> = Vec::new();
    // every lattice (from, to) on joint (index rotating), other joints random classes
    let mut idx = 0usize;
    for f in -k..=k {
        for t in -k..=k {
            let mut from = [0i64; 6];
            let mut to = [0i64; 6];
            for j in 0..6 {
                let (ff, tt, _) = draw_range(&mut r, N_AU);
                from[j] = ff;
                to[j] = tt;
            }
            from[idx % 6] = f * step;
            to[idx % 6] = t * step;
            idx += 1;
            sets.push((from, to));
        }
    }
    let extra = if thorough() { 20_000 } else { 1_000 };
    for _ in 0..extra {
        let mut from = [0i64; 6];
        let mut to = [0i64; 6];
        for j in 0..6 {
            let (ff, tt, _) = draw_range(&mut r, N_AU);
            from[j] = ff;
            to[j] = tt;
        }
        sets.push((from, to));
    }
    let mut last_c: Option<Constraints> = None;
    for (n, (from, to)) in sets.into_iter().enumerate() {
        // the constraint sets reach their limits through all three ways: new, update_range (from other, unrelated
        // limits) and from_degrees
        let fd: [f64; 6] = std::array::from_fn(|i| from[i] as f64 / 1e4);
        let td: [f64; 6] = std::array::from_fn(|i| to[i] as f64 / 1e4);
        let mut fr = rad6(&from);
        let mut tr = rad6(&to);
        // (one set in nine has a joint whose arc is narrower than any angular resolution: 1e-11 .. 1e-7 rad; the same
        //  AU values, so the model sees from = to and accepts whatever the library's own `compliant` accepts)
        let tiny = n % 9 == 4;
        let mut to = to;
        if tiny { let j = n % 6; tr[j] = fr[j] + 10f64.powf(r.gen_range(-11.0..-7.0)); to[j] = from[j]; }
        // (sets that are followed by a narrower sibling have their limits on a grid of 2^-24 rad, so that the centres of
        //  both sets are the very same floating point numbers)
        let with_sibling = n % 4 == 1 && !tiny;
        let snap = |x: f64| (x * 16_777_216.0).round() / 16_777_216.0;
        if with_sibling { for j in 0..6 { fr[j] = snap(fr[j]); tr[j] = snap(tr[j]); } }
        let ctor = if tiny { "new" } else if with_sibling { CTORS[(n % 2) * 2] } else { CTORS[n % 3] };
        let c = build(ctor, &fr, &tr, &fd, &td);
        if ctor == "from_degrees" { fr = c.from; tr = c.to; }
        // every third set is sampled the way the planners do it: through the constraints a robot hands out (a robot
        // declared 5-DOF every second time)
        let via_robot = n % 3 == 1;
        let holder = if via_robot {
            let mut p = rs_opw_kinematics::parameters::opw_kinematics::Parameters::irb2400_10();
            if n % 2 == 0 { p.dof = 5; }
            Some(rs_opw_kinematics::kinematics_impl::OPWKinematics::new_with_constraints(p, c.clone()))
        } else { None };
        let c: Constraints = match &holder {
            Some(robot) => { use rs_opw_kinematics::kinematic_traits::Kinematics; robot.constraints().clone().unwrap_or(c) }
            None => c,
        };
        let other = last_c.clone();
        let mut sample = |c: &Constraints, from: &[i64; 6], to: &[i64; 6], out: &mut Out| {
            for d in 0..draws {
                match guarded(|| c.random_angles()) {
                    Some(q) => {
                        // (every second draw is shown to the preceding, unrelated set first: whether a vector satisfies a
                        //  set is a matter of that set)
                        if let (Some(o), 0) = (&other, d % 2) { let _ = guarded(|| (o.compliant(&q), o.filter(&vec![q]).len())); }
                        // accepted by `compliant` and kept by `filter` of the same constraints
                        let acc = c.compliant(&q) && c.filter(&vec![q]).len() == 1;
                        let two_pi = 2.0 * std::f64::consts::PI;
                        let circ = |x: f64| { let d = x.rem_euclid(two_pi); d.min(two_pi - d) };
                        let edge = (0..6).any(|j| c.from[j] != c.to[j] && (circ(q[j] - c.from[j]) < 1e-14 || circ(q[j] - c.to[j]) < 1e-14));
                        out.put(json!({"ev": "sample", "from": from, "to": to, "a": au6(&q), "acc": acc, "edge": edge, "outcome": "ok", "ctor": ctor, "tiny": tiny}));
                    }
                    None => {
                        out.put(json!({"ev": "sample", "from": from, "to": to, "a": [0,0,0,0,0,0], "acc": false, "edge": false, "outcome": "panic", "ctor": ctor, "tiny": tiny}));
                        break;
                    }
                }
            }
        };
        sample(&c, &from, &to, &mut out);
        last_c = Some(c.clone());
        // right afterwards, on the same thread: a second set with the same centres and arcs of a third of the width
        if with_sibling {
            let mut f2 = fr;
            let mut t2 = tr;
            for j in 0..6 {
                let len = arc_len(from[j], to[j]);
                if from[j] != to[j] && len < N_AU && len >= 600 {
                    let w = snap(au2rad(len / 3));
                    f2[j] = fr[j] + w;
                    t2[j] = tr[j] - w;
                }
            }
            let c2 = Constraints::new(f2, t2, BY_PREV);
            let (f2a, t2a): ([i64; 6], [i64; 6]) = (std::array::from_fn(|j| rad2au(f2[j])), std::array::from_fn(|j| rad2au(t2[j])));
            sample(&c2, &f2a, &t2a, &mut out);
        }
        let _ = (&fr, &tr);
    }
    out.finish();
}


/// Histories for Trace_Session: several live constraint objects, random operation sequences.
pub fn record_session(output: &str) {
    quiet_panics();
    let mut out = Out::create(output);
    let mut r = rng(77);
    let n_ops = if thorough() { 60_000 } else { 6_000 };
    let bound = N_AU;
    let mut objs: Vec<(Constraints, usize)> = Vec::new();
    let draw = |r: &mut rand::rngs::StdRng| -> ([i64; 6], [i64; 6]) {
        let mut f = [0i64; 6];
        let mut t = [0i64; 6];
        for j in 0..6 { let (a, b, _) = draw_range(r, bound); f[j] = a; t[j] = b; }
        (f, t)
    };
    for k in 0..n_ops {
        let op = if objs.len() < 3 { 0 } else { r.gen_range(0..10) };
        match op {
            0 => {
                let (f, t) = draw(&mut r);
                let w16 = [0, 4, 8, 16][r.gen_range(0..4)];
                let id = objs.len() + 1;
                let ctor = CTORS[k % 2];
                let fd: [f64; 6] = std::array::from_fn(|i| f[i] as f64 / 1e4);
                let td: [f64; 6] = std::array::from_fn(|i| t[i] as f64 / 1e4);
                let c = if ctor == "new" { Constraints::new(rad6(&f), rad6(&t), w16 as f64 / 16.0) } else {
                    Constraints::from_degrees([fd[0]..=td[0], fd[1]..=td[1], fd[2]..=td[2], fd[3]..=td[3], fd[4]..=td[4], fd[5]..=td[5]], w16 as f64 / 16.0) };
                if objs.len() >= 12 { let slot = r.gen_range(0..objs.len()); let old = objs[slot].1; objs[slot] = (c, old); out.put(json!({"ev": "new", "id": old, "from": f, "to": t, "w16": w16})); }
                else { objs.push((c, id)); out.put(json!({"ev": "new", "id": id, "from": f, "to": t, "w16": w16})); }
            }
            1 | 2 => {
                let (f, t) = draw(&mut r);
                let i = r.gen_range(0..objs.len());
                objs[i].0.update_range(rad6(&f), rad6(&t));
                out.put(json!({"ev": "update", "id": objs[i].1, "from": f, "to": t}));
            }
            3 => {
                let i = r.gen_range(0..objs.len());
                let c = &objs[i].0;
                out.put(json!({"ev": "observe", "id": objs[i].1, "from": au6(&c.from), "to": au6(&c.to), "w16": (c.sorting_weight * 16.0).round() as i64, "centre_acc": c.compliant(&c.centers)}));
            }
            4 | 5 => {
                let i = r.gen_range(0..objs.len());
                let c = objs[i].0;
                match guarded(|| c.random_angles()) {
                    Some(q) => out.put(json!({"ev": "sample", "id": objs[i].1, "a": au6(&q), "outcome": "ok"})),
                    None => out.put(json!({"ev": "sample", "id": objs[i].1, "a": [0, 0, 0, 0, 0, 0], "outcome": "panic"})),
                }
            }
            _ => {
                let i = r.gen_range(0..objs.len());
                let c = &objs[i].0;
                let f = au6(&c.from);
                let t = au6(&c.to);
                let mut a = [0i64; 6];
                for j in 0..6 { a[j] = if r.gen_bool(0.25) { draw_angle(&mut r, f[j], t[j], 2 * N_AU) } else { f[j] + arc_len(f[j], t[j]) / 2 }; }
                out.put(json!({"ev": "compliant", "id": objs[i].1, "a": a, "acc": c.compliant(&rad6(&a))}));
            }
        }
    }
    out.finish();
}
