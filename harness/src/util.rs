//! Shared helpers: seeded RNG, AU quantisation, ndjson output.
use rand::rngs::StdRng;
use rand::{Rng, SeedableRng};
use serde_json::Value;
use std::fs::File;
use std::io::{BufRead, BufReader, BufWriter, Write};

pub const N_AU: i64 = 3_600_000;

pub fn seed() -> u64 {
    std::env::var("VERIF_SEED").ok().and_then(|s| s.parse::<i64>().ok()).unwrap_or(1) as u64
}

pub fn thorough() -> bool {
    std::env::var("VERIF_TIER").map(|t| t == "thorough").unwrap_or(false)
}

pub fn rng(stream: u64) -> StdRng {
    StdRng::seed_from_u64(seed().wrapping_mul(0x9E37_79B9_7F4A_7C15).wrapping_add(stream))
}

/// AU (1e-4 degree) -> radians
pub fn au2rad(a: i64) -> f64 {
    (a as f64 / 1e4).to_radians()
}

/// radians -> AU (rounded); non-finite maps to a sentinel far outside any range.
/// Values beyond +-3000 degrees (and non-finite ones) are clamped to +-AU_CLAMP so that TLC's 32-bit arithmetic on
/// them cannot overflow (the weighted cost, a sum of six differences times 16, is only evaluated on answers within
/// +-900 degrees, see Solver!Ordered); every angle the properties speak about is inside +-4 pi.
pub const AU_CLAMP: i64 = 30_000_000;
pub fn rad2au(r: f64) -> i64 {
    if !r.is_finite() {
        return AU_CLAMP;
    }
    let v = (r.to_degrees() * 1e4).round();
    if v.abs() > AU_CLAMP as f64 { if v > 0.0 { AU_CLAMP } else { -AU_CLAMP } } else { v as i64 }
}

pub fn au6(q: &[f64; 6]) -> Vec<i64> {
    q.iter().map(|x| rad2au(*x)).collect()
}

pub fn rad6(a: &[i64]) -> [f64; 6] {
    let mut r = [0.0; 6];
    for i in 0..6 {
        r[i] = au2rad(a[i]);
    }
    r
}

pub struct Out {
    w: BufWriter<File>,
    pub n: usize,
}

impl Out {
    pub fn create(path: &str) -> Out {
        Out { w: BufWriter::new(File::create(path).expect("cannot create output")), n: 0 }
    }
    pub fn put(&mut self, v: Value) {
        serde_json::to_writer(&mut self.w, &v).unwrap();
        self.w.write_all(b"\n").unwrap();
        self.n += 1;
        tick();
    }
    pub fn finish(mut self) {
        self.w.flush().unwrap();
    }
}

pub fn read_ndjson(path: &str) -> Vec<Value> {
    let f = BufReader::new(File::open(path).expect("cannot open input"));
    f.lines()
        .map(|l| l.unwrap())
        .filter(|l| !l.trim().is_empty())
        .map(|l| serde_json::from_str(&l).expect("bad json line"))
        .collect()
}

pub fn ivec(v: &Value) -> Vec<i64> {
    v.as_array().expect("array").iter().map(|x| x.as_i64().expect("int")).collect()
}

/// Run a closure, converting a panic of the code under test into None.
pub fn guarded<T, F: FnOnce() -> T>(f: F) -> Option<T> {
    tick();
    let r = std::panic::catch_unwind(std::panic::AssertUnwindSafe(f)).ok();
    tick();
    r
}

/// Progress of the recording / replay: counted at every guarded call of the code under test (before and after) and at
/// every event written. A monitor thread ends the process with exit code 97 when the count stands still for
/// VERIF_STALL_S seconds (default 300): a call that does not return is reported, not waited for.
pub static PROGRESS: std::sync::atomic::AtomicU64 = std::sync::atomic::AtomicU64::new(0);
pub fn tick() { PROGRESS.fetch_add(1, std::sync::atomic::Ordering::Relaxed); }
pub fn start_stall_monitor() {
    let stall = std::env::var("VERIF_STALL_S").ok().and_then(|s| s.parse::<u64>().ok()).unwrap_or(300);
    std::thread::spawn(move || {
        let mut last = PROGRESS.load(std::sync::atomic::Ordering::Relaxed);
        let mut since = std::time::Instant::now();
        loop {
            std::thread::sleep(std::time::Duration::from_secs(2));
            let now = PROGRESS.load(std::sync::atomic::Ordering::Relaxed);
            if now != last { last = now; since = std::time::Instant::now(); }
            else if since.elapsed().as_secs() >= stall {
                eprintln!("HANG: no call of the code under test has returned and no event was written for {} s", stall);
                std::process::exit(97);
            }
        }
    });
}

pub fn quiet_panics() {
    if std::env::var("VERIF_LOUD").is_ok() { return; }
    std::panic::set_hook(Box::new(|_| {}));
}

pub fn pick<'a, T>(r: &mut StdRng, xs: &'a [T]) -> &'a T {
    &xs[r.gen_range(0..xs.len())]
}

/// Run a closure inside a rayon pool of `n` threads (the library's parallel loops then see that pool).
pub fn in_pool<T: Send, F: FnOnce() -> T + Send>(n: usize, f: F) -> T {
    // (0: on the calling thread itself, i.e. in the global pool, as consecutive calls of an application would be)
    if n == 0 { return f(); }
    rayon::ThreadPoolBuilder::new().num_threads(n).build().expect("pool").install(f)
}

/// Pool sizes for case `k`: `m` sizes (m >= 2) that run through every size from 1 to 16 as k advances (a result
/// must not depend on how many workers share the work), the last one being the machine's 16 or, for every third case, no private pool at all (size 0).
pub fn pools_for(k: usize, m: usize) -> Vec<usize> {
    let mut v: Vec<usize> = (0..m - 1).map(|i| 1 + (k + 5 * i) % 15).collect();
    v.dedup();
    // every third case makes its last call outside any private pool
    v.push(if k % 3 == 1 { 0 } else { 16 });
    v
}
