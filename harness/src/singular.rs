//! C05: wrist singularity detection (B1 replay of Gen_Singular + oracle axis angle) and J4/J6
//! continuity at exactly singular poses (B3, judged by Trace_Singular).
use crate::oracle::{self, Iso};
use crate::robots;
use crate::shape;
use crate::solver::{self, Robot};
use crate::util::*;
use rand::Rng;
use rs_opw_kinematics::kinematic_traits::{Joints, Kinematics};
use rs_opw_kinematics::parameters::opw_kinematics::Parameters;
use serde_json::json;
use std::f64::consts::PI;

fn nano(x: f64) -> i64 { if x.is_finite() { (x * 1e9).round().min(2e9) as i64 } else { 2_000_000_000 } }

/// angle between the J4 and J6 rotation axes of the independent chain, folded to [0, pi/2]
pub fn axis_angle(p: &Parameters, q_leaf: &Joints) -> f64 {
    let links = oracle::chain(p, q_leaf);
    let z4 = oracle::col(&links[3].r, 2);
    let z6 = oracle::col(&links[5].r, 2);
    let a = oracle::norm(&oracle::cross(&z4, &z6)).atan2(oracle::dot(&z4, &z6));
    a.min(PI - a)
}

/// B1: expected verdicts from Gen_Singular; also writes the sing trace (oracle axis angles).
pub fn replay(input: &str, output: &str, trace: &str) {
    quiet_panics();
    let lines = read_ndjson(input);
    let mut out = Out::create(output);
    let mut tr = Out::create(trace);
    let mut r = rng(55);
    let mut evals = 0u64;
    let mut nontrivial = 0u64;
    for (id, line) in lines.iter().enumerate() {
        let g5 = au2rad(line["g5"].as_i64().unwrap());
        let s5 = line["sign5"].as_i64().unwrap() as i8;
        let expect = line["expect"].as_bool().unwrap();
        let mut p = robots::geometry(robots::GEOMETRY_CLASSES[id % robots::GEOMETRY_CLASSES.len()], &mut r);
        p = robots::convention(p, r.gen_range(0..64), line["off"].as_str().unwrap(), &mut r);
        p.sign_corrections[4] = s5;
        // ("pgram-j5": a coupling whose coupled joint is joint 5 itself - the wrist angle the inner robot sees is the
        //  caller's value reduced by scaling times the driven joint)
        let layers = if line["stack"] == "pgram-j5" {
            vec![solver::LayerF::Pgram { driven: [0usize, 1, 2, 3, 5][r.gen_range(0..5)], coupled: 4, scaling: [1.0, -1.0, 0.5, 1.7][r.gen_range(0..4)] }]
        } else { solver::stack_for(line["stack"].as_str().unwrap(), &mut r) };
        // (every second robot has joint limits - windows of 1 to 5 rad anywhere, which may or may not contain the joint
        //  vector asked about or the flipped wrist: the report is geometric, whatever the limits say)
        let limits = if id % 2 == 1 {
            let c: Joints = std::array::from_fn(|_| r.gen_range(-1.0..1.0));
            let w: Joints = std::array::from_fn(|_| r.gen_range(0.5..2.5));
            Some((std::array::from_fn(|i| c[i] - w[i]), std::array::from_fn(|i| c[i] + w[i]), [0.0, 1.0, 0.5][id % 3]))
        } else { None };
        let robot = Robot::new(p, layers, limits);
        // the joint vector of the innermost robot, then the vector the caller has to pass for it
        let mut q: Joints = std::array::from_fn(|_| r.gen_range(-3.0..3.0));
        q[4] = (g5 + p.offsets[4]) * s5 as f64;
        let leaf_q = q;
        let q = solver::outer_joints(&robot.layers, &leaf_q);
        let Some(rep) = guarded(|| robot.kin.kinematic_singularity(&q).is_some()) else {
            out.put(json!({"sig": "singular:panic", "detail": line.to_string()}));
            continue;
        };
        evals += 1;
        if expect { nontrivial += 1; }
        let depth = line["depth"].as_i64().unwrap();
        let class = if depth < 0 { "negative-side" } else if depth > 0 { "positive-side" } else { "exact" };
        if rep != expect {
            out.put(json!({"sig": format!("singular:{}:{}:offsets-{}:sign5{}", if expect { "missed" } else { "false-report" }, class, line["off"].as_str().unwrap(), if s5 < 0 { "-" } else { "+" }),
                "detail": format!("geometric J5 = {} x pi {:+} AU (q5 = {} rad, sign5 {}, offset5 {}): expected {}, reported {}", line["k"], depth, q[4], s5, p.offsets[4], expect, rep),
                "data": {"q": q, "params": robots::params_json(&p), "stack": line["stack"]}}));
        }
        tr.put(json!({"ev": "sing", "axis_nrad": nano(axis_angle(&p, &robot.leaf_joints(&q))), "reported": rep, "g5": line["g5"], "sign5": s5, "off": line["off"], "stack": line["stack"]}));
    }
    out.put(json!({"stats": {"lines": lines.len(), "evaluations": evals, "nontrivial": nontrivial}}));
    out.finish();
    tr.finish();
}

/// largest singular value of the inverse arm Jacobian (wrist centre wrt J1..J3) times the solver's shift
fn arm_sensitivity(p: &Parameters, q: &Joints) -> f64 {
    let wc = |q: &Joints| -> [f64; 3] { oracle::chain(p, q)[4].t };
    let h = 1e-6;
    let mut j = nalgebra::Matrix3::<f64>::zeros();
    for c in 0..3 {
        let mut a = *q;
        let mut b = *q;
        a[c] += h;
        b[c] -= h;
        let (fa, fb) = (wc(&a), wc(&b));
        for rr in 0..3 {
            j[(rr, c)] = (fa[rr] - fb[rr]) / (2.0 * h);
        }
    }
    let sv = j.svd(false, false).singular_values;
    let smin = sv.iter().cloned().fold(f64::INFINITY, f64::min);
    if smin <= 1e-12 { return 1.0; }
    0.125e-6 / smin
}

/// B3: continuity events at exactly singular poses.
pub fn record_cont(output: &str) {
    quiet_panics();
    let mut out = Out::create(output);
    let mut r = rng(505);
    let n = if thorough() { 100_000 } else { 8_000 };
    for k in 0..n {
        let mut p = robots::geometry(robots::GEOMETRY_CLASSES[k % robots::GEOMETRY_CLASSES.len()], &mut r);
        let offc = ["zero", "quarter", "random"][k % 3];
        p = robots::convention(p, r.gen_range(0..64), offc, &mut r);
        // every second robot is a large one of the same proportions (the well-conditioned postures for which the
        // property demands continuity are rare on short arms)
        let scale = [1.0, 1.0, 3.0, 5.0][r.gen_range(0..4)];
        p.a1 *= scale; p.a2 *= scale; p.b *= scale; p.c1 *= scale; p.c2 *= scale; p.c3 *= scale; p.c4 *= scale;
        // one robot in nine has a shape (collision-aware wrapper around tool, base and limits; nothing collides here)
        let shape_case = if k % 9 == 8 { Some(shape::make_case_scaled(&mut r, 2 * k, 0, false, None, &[], scale)) } else { None };
        if let Some(c) = &shape_case { p = c.reference.p; }
        let stack_class = if shape_case.is_some() { "shape" } else { ["bare", "tool", "base+tool", "frame"][(k / 3) % 4] };
        let layers = match &shape_case { Some(c) => c.reference.layers.clone(), None => solver::stack_for(stack_class, &mut r) };
        // exactly singular: geometric J5 = 0; everything else random, inside +-pi in robot coordinates
        // (well-conditioned arm postures, for which the property demands continuity, are one in ten on robots of
        //  ordinary size: up to 40 draws for one)
        let s = |i: usize| p.sign_corrections[i] as f64;
        let norm = |x: f64| { let mut a = x.rem_euclid(2.0 * PI); if a > PI { a -= 2.0 * PI; } a };
        let mut q: Joints = [0.0; 6];
        for _ in 0..40 {
            let mut e: [f64; 6] = std::array::from_fn(|_| r.gen_range(-PI..PI));
            e[4] = 0.0;
            q = std::array::from_fn(|i| norm((e[i] + p.offsets[i]) * s(i)));
            if let Some(c) = &shape_case {
                for i in 0..6 { if i != 4 { q[i] = r.gen_range(c.from[i] * 0.8..c.to[i] * 0.8); } }
            }
            if arm_sensitivity(&p, &q) < 240e-9 { break; }
        }
        // (a robot with shape: the posture has to be collision free for every J4 / J6 split within 0.6 rad of the drawn
        //  one - the recovered answer takes its split from the previous joints, and a tool or wrist body that is free in
        //  one split may touch the folded arm in another; such an answer is filtered out rightly)
        if let Some(c) = &shape_case {
            let s3 = p.sign_corrections[3] as f64;
            let s5 = p.sign_corrections[5] as f64;
            if (-12..=12).any(|i| { let d = i as f64 * 0.05; let mut v = q; v[3] += d * s3; v[5] -= d * s5; c.kws.collides(&v) }) { continue; }
        }
        let m = solver::margins(&p, &q);
        if !(m.elbow > 0.1 && m.shoulder > 0.08 * scale) { continue; }
        // limits (two robots in seven): ranges centred at the singular posture itself, so that the CONSTRAINT_CENTERED
        // sentinel stands for a previous position that realises the pose
        let limited = shape_case.is_none() && matches!(k % 7, 3 | 5);
        let limits = if limited {
            // (J4 / J6 wide enough for the re-distributed split of a previous that does not realise the pose)
            let hw: Joints = std::array::from_fn(|i| if i == 3 || i == 5 { r.gen_range(1.0..1.5) } else { r.gen_range(0.3..1.5) });
            // (the ranges of every second robot that is not asked through the sentinel lie off-centre: the posture 0.2 rad
            //  inside their lower ends, so that the range centres are somewhere else than the previous position)
            let off = if k % 7 == 5 && (k / 7) % 2 == 1 { 1.0 } else { 0.0 };
            // (J4 / J6 keep 0.9 rad below the posture - room for a previous split that differs by 0.4 rad - and get 5.3 above (nearly a full turn: the other J4 / J6 splits of the posture are legal as well))
            let lo = |i: usize| if off == 0.0 { hw[i] } else if i == 3 || i == 5 { 0.9 } else { 0.2 };
            let hi = |i: usize| if off == 0.0 { hw[i] } else if i == 3 || i == 5 { 5.3 } else { 2.0 * hw[i] - 0.2 };
            Some((std::array::from_fn(|i| q[i] - lo(i)), std::array::from_fn(|i| q[i] + hi(i)), [0.0, 0.5, 1.0][k % 3]))
        } else if let Some(c) = &shape_case { Some((c.from, c.to, 0.0)) } else { None };
        let sentinel = limited && k % 7 == 3;
        let mut robot = Robot::new(p, layers, limits);
        // (the robots with off-centre ranges got their sorting weight assigned after their limits were constructed with
        //  another one)
        if let (Some((f, t, w)), true) = (limits, limited && k % 7 == 5 && (k / 7) % 2 == 1) {
            let mut c = rs_opw_kinematics::constraints::Constraints::new(f, t, if w == 1.0 { 0.0 } else { 1.0 });
            c.sorting_weight = w;
            robot.kin = solver::wrap(&robot.layers, std::sync::Arc::new(rs_opw_kinematics::kinematics_impl::OPWKinematics::new_with_constraints(p, c)));
        }
        let kin: std::sync::Arc<dyn Kinematics> = match shape_case { Some(c) => std::sync::Arc::new(c.kws), None => robot.kin.clone() };
        let want = robot.ofk(&q);
        // previous: realises the pose exactly (half), or differs in the J4/J6 split and sum (half)
        let realised = k % 2 == 0 || sentinel;
        let mut prev = q;
        if !realised {
            prev[3] += r.gen_range(-0.4..0.4);
            prev[5] += r.gen_range(-0.4..0.4);
        }
        // previous J4 / J6 wound up by whole turns (a multi-turn flange): the same posture, still realising the pose
        if k % 5 == 1 && limits.is_none() {
            prev[3] += 2.0 * PI * r.gen_range(-4..=4) as f64;
            prev[5] += 2.0 * PI * r.gen_range(-4..=4) as f64;
        }
        // a previous position that is not singular itself: the wrist 2 degrees bent, on the way to the straight posture
        if k % 6 == 5 && !realised && !sentinel { prev[4] += 0.035 * if r.gen_bool(0.5) { 1.0 } else { -1.0 }; }
        if sentinel {
            let (f, t, w) = limits.unwrap();
            prev = rs_opw_kinematics::constraints::Constraints::new(f, t, w).centers;
        }
        let sens = arm_sensitivity(&p, &q);
        // is another arm branch singular as well? (precondition only; uses the library's own plain inverse on the twin
        // without limits, at the pose itself and at poses shifted by up to 10 um in six directions, because plain
        // inverse tends to drop exactly singular solutions and the recovery looks at shifted poses too)
        let mut other_singular = false;
        for d in [[0.0, 0.0, 0.0], [1.25e-7, 0.0, 0.0], [0.0, 1.25e-7, 0.0], [0.0, 0.0, 1.25e-7], [1e-5, 0.0, 0.0], [0.0, 1e-5, 0.0], [0.0, 0.0, 1e-5], [-1e-5, 0.0, 0.0], [0.0, -1e-5, 0.0], [0.0, 0.0, -1e-5]] {
            let mut leaf = oracle::fk(&p, &q);
            leaf.t = oracle::add(&leaf.t, &d);
            let bare = rs_opw_kinematics::kinematics_impl::OPWKinematics::new(p);
            for a in bare.inverse(&leaf.to_na()) {
                let same_arm = (0..3).all(|j| { let d = (a[j] - q[j]).rem_euclid(2.0 * PI); d.min(2.0 * PI - d) < 1e-3 });
                if !same_arm && (a[4] * s(4) - p.offsets[4]).sin().abs() < 3e-4 { other_singular = true; }
            }
        }
        let asked = if sentinel { rs_opw_kinematics::kinematic_traits::CONSTRAINT_CENTERED } else { prev };
        // one call in four goes through the convenience entry of a frame with the identity transform: the taught point
        // is the same posture with another J4 / J6 split (the same pose), the previous joints are passed separately
        let via_frame = k % 4 == 2;
        let ans = if via_frame {
            let d = r.gen_range(0.1..0.5) * if r.gen_bool(0.5) { 1.0 } else { -1.0 };
            let mut taught = q;
            taught[3] += d * s(3);
            taught[5] -= d * s(5);
            let framed = rs_opw_kinematics::frame::Frame { robot: kin.clone(), frame: nalgebra::Isometry3::identity() };
            guarded(|| framed.forward_transformed(&taught, &asked).0)
        } else {
            // (one call in three comes right after a call for the very same pose from another previous position - the
            //  same posture with another J4 / J6 split: what a robot answers depends on the previous joints it is given now)
            let pose = want.to_na();
            if k % 3 == 1 && !sentinel {
                let d = r.gen_range(0.2..0.6) * if r.gen_bool(0.5) { 1.0 } else { -1.0 };
                let mut other = q;
                other[3] += d * s(3);
                other[5] -= d * s(5);
                let _ = solver::call(kin.as_ref(), "inverse_continuing", &pose, &other, 0.0);
            }
            solver::call(kin.as_ref(), "inverse_continuing", &pose, &asked, 0.0)
        };
        if std::env::var("VERIF_DEBUG_EV").ok().and_then(|x| x.parse::<usize>().ok()) == Some(out.n + 1) {
            let bare = rs_opw_kinematics::kinematics_impl::OPWKinematics::new(p);
            let mut leaf_na = want.to_na();
            for l in robot.layers.iter() { match l {
                solver::LayerF::Tool(i) | solver::LayerF::Frame(i) => leaf_na = leaf_na * i.to_na().inverse(),
                solver::LayerF::Base(i) => leaf_na = i.to_na().inverse() * leaf_na,
                _ => {} } }
            let leaf = oracle::Iso::from_na(&leaf_na);
            eprintln!("q = {:?}\nprev = {:?}", q, prev);
            eprintln!("leaf pose err vs fk(q): {:e} {:e}", leaf.dpos(&oracle::fk(&p, &q)), leaf.drot(&oracle::fk(&p, &q)));
            for d in [[0.0, 0.0, 0.0], [1.25e-7, 0.0, 0.0], [0.0, 1.25e-7, 0.0], [0.0, 0.0, 1.25e-7]] {
                let mut sh = leaf_na; sh.translation.vector += nalgebra::Vector3::new(d[0], d[1], d[2]);
                eprintln!("shift {:?}:", d);
                for a in bare.inverse(&sh) { eprintln!("   {:?} sing {:?}", a, bare.kinematic_singularity(&a).is_some()); }
            }
            eprintln!("bare continuing:");
            for a in bare.inverse_continuing(&leaf_na, &prev) { eprintln!("   {:?}", a); }
        }
        let base = json!({"ev": "cont", "kind": "zero", "realised": realised, "prev": au6(&prev), "sens_nrad": nano(sens), "other_singular": other_singular,
            "s46_equal": p.sign_corrections[3] == p.sign_corrections[5], "offsets": offc, "stack": stack_class, "geom": robots::GEOMETRY_CLASSES[k % robots::GEOMETRY_CLASSES.len()],
            "sign5": p.sign_corrections[4], "limited": limits.is_some(), "w16": (limits.map(|l| l.2).unwrap_or(0.0) * 16.0).round() as i64, "centred": !(limited && k % 7 == 5 && (k / 7) % 2 == 1), "sentinel": sentinel, "via_frame": via_frame, "scale": scale, "layers": format!("{:?}", robot.layers), "params": robots::params_json(&p), "truth": au6(&q)});
        let mut ev = base;
        match ans {
            None => { ev["outcome"] = json!("panic"); ev["answers"] = json!([]); }
            Some(a) => {
                ev["outcome"] = json!("ok");
                ev["answers"] = json!(a.iter().map(au6).collect::<Vec<_>>());
                let bad: Vec<i64> = a.iter().map(|x| { let b = robot.ofk(x); nano(b.dpos(&want).max(b.drot(&want))) }).collect();
                ev["err_n"] = json!(bad);
            }
        }
        out.put(ev);
    }
    out.finish();
}

#[allow(dead_code)]
fn unused(_: &Iso) {}
