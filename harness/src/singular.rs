//! C05: wrist singularity detection (B1 replay of Gen_Singular + oracle axis angle) and J4/J6
//! continuity at exactly singular poses (B3, judged by Trace_Singular).
use crate::oracle::{self, Iso};
use crate::robots;
use crate::solver::{self, Robot};
use crate::util::*;
use rand::Rng;
use rs_opw_kinematics::kinematic_traits::{Joints, Kinematics};
use rs_opw_kinematics::parameters::opw_kinematics::Parameters;
use serde_json::json;
use std::f64::consts::PI;

fn nano(x: f64) -> i64 { if x.is_finite() { (x * 1e9).round().min(2e9) as i64 } else { 2_000_000_000 } }

/// angle between the J4 and J6 rotation axes of the independent chain, folded to [0, pi/2]
pub fn axis_angle(p: &Parameters, q_leaf: &Joints) -> f64 {
    let links = oracle::chain(p, q_leaf);
    let z4 = oracle::col(&links[3].r, 2);
    let z6 = oracle::col(&links[5].r, 2);
    let a = oracle::norm(&oracle::cross(&z4, &z6)).atan2(oracle::dot(&z4, &z6));
    a.min(PI - a)
}

/// B1: expected verdicts from Gen_Singular; also writes the sing trace (oracle axis angles).
pub fn replay(input: &str, output: &str, trace: &str) {
    quiet_panics();
    let lines = read_ndjson(input);
    let mut out = Out::create(output);
    let mut tr = Out::create(trace);
    let mut r = rng(55);
    let mut evals = 0u64;
    let mut nontrivial = 0u64;
    for (id, line) in lines.iter().enumerate() {
        let g5 = au2rad(line["g5"].as_i64().unwrap());
        let s5 = line["sign5"].as_i64().unwrap() as i8;
        let expect = line["expect"].as_bool().unwrap();
        let mut p = robots::geometry(robots::GEOMETRY_CLASSES[id % robots::GEOMETRY_CLASSES.len()], &mut r);
        p = robots::convention(p, r.gen_range(0..64), line["off"].as_str().unwrap(), &mut r);
        p.sign_corrections[4] = s5;
        let layers = solver::stack_for(line["stack"].as_str().unwrap(), &mut r);
        let robot = Robot::new(p, layers, None);
        let mut q: Joints = std::array::from_fn(|_| r.gen_range(-3.0..3.0));
        q[4] = (g5 + p.offsets[4]) * s5 as f64;
        let Some(rep) = guarded(|| robot.kin.kinematic_singularity(&q).is_some()) else {
            out.put(json!({"sig": "singular:panic", "detail": line.to_string()}));
            continue;
        };
        evals += 1;
        if expect { nontrivial += 1; }
        let depth = line["depth"].as_i64().unwrap();
        let class = if depth < 0 { "negative-side" } else if depth > 0 { "positive-side" } else { "exact" };
        if rep != expect {
            out.put(json!({"sig": format!("singular:{}:{}:offsets-{}:sign5{}", if expect { "missed" } else { "false-report" }, class, line["off"].as_str().unwrap(), if s5 < 0 { "-" } else { "+" }),
                "detail": format!("geometric J5 = {} x pi {:+} AU (q5 = {} rad, sign5 {}, offset5 {}): expected {}, reported {}", line["k"], depth, q[4], s5, p.offsets[4], expect, rep),
                "data": {"q": q, "params": robots::params_json(&p), "stack": line["stack"]}}));
        }
        tr.put(json!({"ev": "sing", "axis_nrad": nano(axis_angle(&p, &robot.leaf_joints(&q))), "reported": rep, "g5": line["g5"], "sign5": s5, "off": line["off"], "stack": line["stack"]}));
    }
    out.put(json!({"stats": {"lines": lines.len(), "evaluations": evals, "nontrivial": nontrivial}}));
    out.finish();
    tr.finish();
}

/// largest singular value of the inverse arm Jacobian (wrist centre wrt J1..J3) times the solver's shift
fn arm_sensitivity(p: &Parameters, q: &Joints) -> f64 {
    let wc = |q: &Joints| -> [f64; 3] { oracle::chain(p, q)[4].t };
    let h = 1e-6;
    let mut j = nalgebra::Matrix3::<f64>::zeros();
    for c in 0..3 {
        let mut a = *q;
        let mut b = *q;
        a[c] += h;
        b[c] -= h;
        let (fa, fb) = (wc(&a), wc(&b));
        for rr in 0..3 {
            j[(rr, c)] = (fa[rr] - fb[rr]) / (2.0 * h);
        }
    }
    let sv = j.svd(false, false).singular_values;
    let smin = sv.iter().cloned().fold(f64::INFINITY, f64::min);
    if smin <= 1e-12 { return 1.0; }
    0.125e-6 / smin
}

/// B3: continuity events at exactly singular poses.
pub fn record_cont(output: &str) {
    quiet_panics();
    let mut out = Out::create(output);
    let mut r = rng(505);
    let n = if thorough() { 100_000 } else { 4_000 };
    for k in 0..n {
        let mut p = robots::geometry(robots::GEOMETRY_CLASSES[k % robots::GEOMETRY_CLASSES.len()], &mut r);
        let offc = ["zero", "quarter", "random"][k % 3];
        p = robots::convention(p, r.gen_range(0..64), offc, &mut r);
        let stack_class = ["bare", "tool", "base+tool", "frame"][(k / 3) % 4];
        let robot = Robot::new(p, solver::stack_for(stack_class, &mut r), None);
        // exactly singular: geometric J5 = 0; everything else random, inside +-pi in robot coordinates
        let mut e: [f64; 6] = std::array::from_fn(|_| r.gen_range(-PI..PI));
        e[4] = 0.0;
        let s = |i: usize| p.sign_corrections[i] as f64;
        let norm = |x: f64| { let mut a = x.rem_euclid(2.0 * PI); if a > PI { a -= 2.0 * PI; } a };
        let q: Joints = std::array::from_fn(|i| norm((e[i] + p.offsets[i]) * s(i)));
        let m = solver::margins(&p, &q);
        if !(m.elbow > 0.1 && m.shoulder > 0.08) { continue; }
        let want = robot.ofk(&q);
        // previous: realises the pose exactly (half), or differs in the J4/J6 split and sum (half)
        let realised = k % 2 == 0;
        let mut prev = q;
        if !realised {
            prev[3] += r.gen_range(-0.4..0.4);
            prev[5] += r.gen_range(-0.4..0.4);
        }
        // previous J4 / J6 wound up by whole turns (a multi-turn flange): the same posture, still realising the pose
        if k % 5 == 1 {
            prev[3] += 2.0 * PI * r.gen_range(-1..=1) as f64;
            prev[5] += 2.0 * PI * r.gen_range(-1..=1) as f64;
        }
        let sens = arm_sensitivity(&p, &q);
        // is another arm branch singular as well? (precondition only; uses the library's own plain inverse)
        let others = robot.kin.inverse(&want.to_na());
        let other_singular = others.iter().any(|a| {
            let same_arm = (0..3).all(|j| { let d = (a[j] - q[j]).rem_euclid(2.0 * PI); d.min(2.0 * PI - d) < 1e-3 });
            !same_arm && (a[4] * s(4) - p.offsets[4]).sin().abs() < 2e-4
        });
        let ans = solver::call(robot.kin.as_ref(), "inverse_continuing", &want.to_na(), &prev, 0.0);
        let base = json!({"ev": "cont", "kind": "zero", "realised": realised, "prev": au6(&prev), "sens_nrad": nano(sens), "other_singular": other_singular,
            "s46_equal": p.sign_corrections[3] == p.sign_corrections[5], "offsets": offc, "stack": stack_class, "geom": robots::GEOMETRY_CLASSES[k % robots::GEOMETRY_CLASSES.len()],
            "sign5": p.sign_corrections[4], "params": robots::params_json(&p), "truth": au6(&q)});
        let mut ev = base;
        match ans {
            None => { ev["outcome"] = json!("panic"); ev["answers"] = json!([]); }
            Some(a) => {
                ev["outcome"] = json!("ok");
                ev["answers"] = json!(a.iter().map(au6).collect::<Vec<_>>());
                let bad: Vec<i64> = a.iter().map(|x| { let b = robot.ofk(x); nano(b.dpos(&want).max(b.drot(&want))) }).collect();
                ev["err_n"] = json!(bad);
            }
        }
        out.put(ev);
    }
    out.finish();
}

#[allow(dead_code)]
fn unused(_: &Iso) {}
