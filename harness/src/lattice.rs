//! The exact lattice of spec/Lattice.tla seen from Rust: lattice angle index -> f64, scaled integer
//! isometries printed by TLC -> float isometries.
use crate::oracle::Iso;
use serde_json::Value;

/// angle of lattice index k: (k div 3)*90deg + {0, atan(3/4), atan(4/3)}
pub fn angle(k: i64) -> f64 {
    let k = k.rem_euclid(12);
    let q = (k / 3) as f64 * std::f64::consts::FRAC_PI_2;
    q + match k % 3 {
        0 => 0.0,
        1 => 3.0f64.atan2(4.0),
        _ => 4.0f64.atan2(3.0),
    }
}

/// [R, t, n] with integer entries scaled by 5^n; lengths in `unit` metres
pub fn iso(v: &Value, unit: f64) -> Iso {
    let n = v["n"].as_i64().unwrap() as i32;
    let s = 5f64.powi(n);
    let mut r = [[0.0; 3]; 3];
    for i in 0..3 {
        for j in 0..3 {
            r[i][j] = v["R"][i][j].as_i64().unwrap() as f64 / s;
        }
    }
    let t = [
        v["t"][0].as_i64().unwrap() as f64 / s * unit,
        v["t"][1].as_i64().unwrap() as f64 / s * unit,
        v["t"][2].as_i64().unwrap() as f64 / s * unit,
    ];
    Iso { r, t }
}

pub fn iso_max_diff(a: &Iso, b: &Iso) -> (f64, f64) {
    let mut dr: f64 = 0.0;
    for i in 0..3 {
        for j in 0..3 {
            dr = dr.max((a.r[i][j] - b.r[i][j]).abs());
        }
    }
    (a.dpos(b), dr)
}
