//! C15: Jacobian. B1 replay of the exact geometric Jacobian (Gen_Jacobian) and B3 events on random
//! robots / stacks (oracle geometric Jacobian), judged by Trace_Jacobian.
use crate::chain::{joints_for, lattice_params, UNIT_M};
use crate::oracle::{self, Iso};
use crate::robots;
use crate::solver::{self, LayerF, Robot};
use crate::util::*;
use nalgebra::{Isometry3, Vector6};
use rand::Rng;
use rs_opw_kinematics::jacobian::Jacobian;
use rs_opw_kinematics::kinematic_traits::{Joints, Kinematics};
use rs_opw_kinematics::kinematics_impl::OPWKinematics;
use rs_opw_kinematics::parameters::opw_kinematics::Parameters;
use serde_json::{json, Value};

/// the matrix is private: row k of J is torques_from_vector(unit_k)
fn matrix_of(j: &Jacobian) -> [[f64; 6]; 6] {
    let mut m = [[0.0; 6]; 6];
    for k in 0..6 {
        let mut f = Vector6::zeros();
        f[k] = 1.0;
        m[k] = j.torques_from_vector(&f);
    }
    m
}

fn reach(p: &Parameters) -> f64 { p.a1.abs() + p.a2.abs() + p.b.abs() + p.c1.abs() + p.c2.abs() + p.c3.abs() + p.c4.abs() }

/// wraps a stack so that `Jacobian::new(&impl Kinematics)` accepts it
struct Dyn<'a>(&'a dyn Kinematics);
impl<'a> Kinematics for Dyn<'a> {
    fn inverse(&self, p: &rs_opw_kinematics::kinematic_traits::Pose) -> rs_opw_kinematics::kinematic_traits::Solutions { self.0.inverse(p) }
    fn inverse_continuing(&self, p: &rs_opw_kinematics::kinematic_traits::Pose, q: &Joints) -> rs_opw_kinematics::kinematic_traits::Solutions { self.0.inverse_continuing(p, q) }
    fn forward(&self, q: &Joints) -> rs_opw_kinematics::kinematic_traits::Pose { self.0.forward(q) }
    fn inverse_5dof(&self, p: &rs_opw_kinematics::kinematic_traits::Pose, j6: f64) -> rs_opw_kinematics::kinematic_traits::Solutions { self.0.inverse_5dof(p, j6) }
    fn inverse_continuing_5dof(&self, p: &rs_opw_kinematics::kinematic_traits::Pose, q: &Joints) -> rs_opw_kinematics::kinematic_traits::Solutions { self.0.inverse_continuing_5dof(p, q) }
    fn constraints(&self) -> &Option<rs_opw_kinematics::constraints::Constraints> { self.0.constraints() }
    fn kinematic_singularity(&self, q: &Joints) -> Option<rs_opw_kinematics::kinematic_traits::Singularity> { self.0.kinematic_singularity(q) }
    fn forward_with_joint_poses(&self, q: &Joints) -> [rs_opw_kinematics::kinematic_traits::Pose; 6] { self.0.forward_with_joint_poses(q) }
}

const EPS: [f64; 3] = [1e-7, 1e-6, 1e-5];

pub fn replay(input: &str, output: &str) {
    quiet_panics();
    let lines = read_ndjson(input);
    let mut out = Out::create(output);
    let mut r = rng(15);
    let mut evals = 0u64;
    let mut nontrivial = 0u64;
    for (id, line) in lines.iter().enumerate() {
        let e = ivec(&line["e"]);
        let mut p = lattice_params(&line["p"]);
        if id % 2 == 1 { p = robots::convention(p, (id * 5) % 64, if id % 4 == 1 { "quarter" } else { "random" }, &mut r); }
        let q = joints_for(&p, &e, &[0; 6]);
        // expected columns from the exact model
        let mut want = [[0.0; 6]; 6];
        for i in 0..6 {
            let c = &line["cols"][i];
            let sv = 5f64.powi(c["vn"].as_i64().unwrap() as i32);
            let sw = 5f64.powi(c["wn"].as_i64().unwrap() as i32);
            let s = p.sign_corrections[i] as f64;
            for k in 0..3 {
                want[k][i] = s * c["v"][k].as_i64().unwrap() as f64 / sv * UNIT_M;
                want[k + 3][i] = s * c["w"][k].as_i64().unwrap() as f64 / sw;
            }
        }
        // the oracle's geometric Jacobian against the exact one (oracle conformance)
        let oj = oracle::geometric_jacobian(&p, &q, &Iso::identity(), &Iso::identity());
        let mut omax: f64 = 0.0;
        for a in 0..6 { for b in 0..6 { omax = omax.max((oj[a][b] - want[a][b]).abs()); } }
        if !(omax < 1e-9) {
            out.put(json!({"sig": "jac:ORACLE-differs-from-exact-model", "detail": format!("{:.3e} e={:?}", omax, e)}));
        }
        let robot = OPWKinematics::new(p);
        let eps = EPS[id % 3];
        let Some(j) = guarded(|| Jacobian::new(&robot, &q, eps)) else {
            out.put(json!({"sig": "jac:new-panics", "detail": format!("e={:?}", e)}));
            continue;
        };
        evals += 1;
        nontrivial += 1;
        let m = matrix_of(&j);
        let allowed = 20.0 * eps * (1.0 + reach(&p));
        for col in 0..6 {
            let mut d: f64 = 0.0;
            for row in 0..6 { d = d.max((m[row][col] - want[row][col]).abs()); }
            if !(d <= allowed) {
                out.put(json!({"sig": format!("jac:column-differs-from-geometric:{}", if id % 2 == 1 { "signs+offsets" } else { "plain" }),
                    "detail": format!("column {} differs by {:.3e} (allowed {:.3e}, eps {:e}); e={:?} params={}", col + 1, d, allowed, eps, e, robots::params_json(&p)),
                    "data": {"e": e, "params": robots::params_json(&p), "q": q, "eps": eps}}));
                break;
            }
        }
        if id == lines.len() / 2 { out.put(json!({"sample": {"e": e, "p": line["p"], "exact_columns": line["cols"]}})); }
    }
    out.put(json!({"stats": {"lines": lines.len(), "evaluations": evals, "nontrivial": nontrivial}}));
    out.finish();
}

fn milli(x: f64, allowed: f64) -> i64 { if x.is_finite() { ((x / allowed) * 1000.0).round().min(2e9) as i64 } else { 2_000_000_000 } }

fn event(robot: &Robot, q: &Joints, eps: f64, r: &mut rand::rngs::StdRng, class: &str, pool: usize) -> Value {
    let p = robot.p;
    // geometric Jacobian of the stack: tool = product of tool/frame layers, base = product of bases
    let mut tool = Iso::identity();
    let mut base = Iso::identity();
    for l in robot.layers.iter().rev() {
        match l { LayerF::Tool(i) | LayerF::Frame(i) => tool = tool.mul(i), LayerF::Base(i) => base = i.mul(&base), _ => {} }
    }
    let mut geo = oracle::geometric_jacobian(&p, &robot.leaf_joints(q), &tool, &base);
    // a coupling makes the leaf see q[coupled] - scaling * q[driven]: chain rule, innermost coupling first
    for l in robot.layers.iter().rev() {
        if let LayerF::Pgram { driven, coupled, scaling } = l {
            for row in 0..6 { geo[row][*driven] -= scaling * geo[row][*coupled]; }
        }
    }
    let tool_len = oracle::norm(&tool.t);
    let allowed = 20.0 * eps * (1.0 + reach(&p) + tool_len);
    let kin = Dyn(robot.kin.as_ref());
    // (pool 0: on the calling thread itself, as consecutive calls of an application would be)
    let Some(j) = guarded(|| if pool == 0 { Jacobian::new(&kin, q, eps) } else { in_pool(pool, || Jacobian::new(&kin, q, eps)) }) else { return json!({"ev": "jac", "outcome": "panic", "class": class}); };
    let m = matrix_of(&j);
    let col_err: Vec<i64> = (0..6).map(|c| { let mut d: f64 = 0.0; for rr in 0..6 { d = d.max((m[rr][c] - geo[rr][c]).abs()); } milli(d, allowed) }).collect();
    // wrench -> torques: transpose; isometry and vector entry points agree
    let w: [f64; 6] = std::array::from_fn(|_| r.gen_range(-5.0..5.0));
    let wv = Vector6::new(w[0], w[1], w[2], w[3], w[4], w[5]);
    let tq = j.torques_from_vector(&wv);
    let want_t: [f64; 6] = std::array::from_fn(|i| (0..6).map(|k| geo[k][i] * w[k]).sum());
    let wnorm = w.iter().map(|x| x.abs()).sum::<f64>();
    let torque_err = (0..6).map(|i| (tq[i] - want_t[i]).abs()).fold(0.0, f64::max);
    let wiso = Isometry3::new(nalgebra::Vector3::new(w[0], w[1], w[2]), nalgebra::Vector3::new(w[3], w[4], w[5]) * 0.3);
    let tq_iso = j.torques(&wiso);
    let wv2 = Vector6::new(w[0], w[1], w[2], w[3] * 0.3, w[4] * 0.3, w[5] * 0.3);
    let tq_vec = j.torques_from_vector(&wv2);
    // the same rotation written with the opposite sign of the quaternion (w < 0) is the same wrench
    let wiso_neg = Isometry3::from_parts(wiso.translation, nalgebra::UnitQuaternion::new_unchecked(-wiso.rotation.into_inner()));
    let tq_neg = j.torques(&wiso_neg);
    let torque_agree = (0..6).map(|i| (tq_iso[i] - tq_vec[i]).abs().max((tq_neg[i] - tq_vec[i]).abs())).fold(0.0, f64::max);
    // twist -> velocities: reproduce the twist through the geometric Jacobian when well conditioned
    let t: [f64; 6] = std::array::from_fn(|_| r.gen_range(-1.0..1.0));
    let tv = Vector6::new(t[0], t[1], t[2], t[3], t[4], t[5]);
    let gm = nalgebra::Matrix6::from_fn(|a, b| geo[a][b]);
    let sv = gm.svd(false, false).singular_values;
    let smax = sv.iter().cloned().fold(0.0, f64::max);
    let smin = sv.iter().cloned().fold(f64::INFINITY, f64::min);
    let cond = if smin > 0.0 { smax / smin } else { f64::INFINITY };
    let (vel_res, vel_agree, vel_ok) = match j.velocities_from_vector(&tv) {
        Ok(v) => {
            let vv = Vector6::new(v[0], v[1], v[2], v[3], v[4], v[5]);
            let res = (gm * vv - tv).norm();
            let tiso = Isometry3::new(nalgebra::Vector3::new(t[0], t[1], t[2]), nalgebra::Vector3::new(t[3], t[4], t[5]));
            let v2 = j.velocities(&tiso).unwrap_or([f64::NAN; 6]);
            let v3 = j.velocities_fixed(t[0], t[1], t[2]).unwrap_or([f64::NAN; 6]);
            let v3w = j.velocities_from_vector(&Vector6::new(t[0], t[1], t[2], 0.0, 0.0, 0.0)).unwrap_or([f64::NAN; 6]);
            let ag = (0..6).map(|i| (v[i] - v2[i]).abs().max((v3[i] - v3w[i]).abs())).fold(0.0, f64::max);
            let vn = (0..6).map(|i| v[i].abs()).fold(1.0, f64::max);
            (res, ag / vn, true)
        }
        Err(_) => (f64::NAN, f64::NAN, false),
    };
    // allowed residual: the differencing error of J propagates through J^-1: |dJ| * |v| <= allowed * 6 * cond-ish
    let vel_allowed = allowed * 40.0 * cond.min(1e6) * 2.0;
    json!({"ev": "jac", "outcome": "ok", "class": class, "eps_exp": (-eps.log10()).round() as i64, "col_err_milli": col_err,
        "torque_err_milli": milli(torque_err, allowed * wnorm * 6.0), "torque_agree_milli": milli(torque_agree, 1e-9 * (1.0 + wnorm)),
        "cond": if cond.is_finite() { cond.round().min(2e9) as i64 } else { 2_000_000_000i64 }, "vel_ok": vel_ok,
        "vel_res_milli": milli(vel_res, vel_allowed), "vel_agree_milli": milli(vel_agree, 1e-9),
        "stack": class, "q": au6(q), "params": robots::params_json(&p)})
}

pub fn record(output: &str) {
    quiet_panics();
    let mut out = Out::create(output);
    let mut r = rng(1515);
    let n = if thorough() { 30_000 } else { 6_000 };
    let stacks = ["bare", "tool", "base", "base+tool", "frame", "tool>base", "pgram", "tool>pgram", "pgram>pgram"];
    let mut last_q: Joints = [0.0; 6];
    let mut recent: Vec<(Robot, Joints, f64, &str)> = Vec::new();
    let mut slow = false;
    for k in 0..n {
        let mut p = robots::geometry(robots::GEOMETRY_CLASSES[k % robots::GEOMETRY_CLASSES.len()], &mut r);
        p = robots::convention(p, r.gen_range(0..64), ["zero", "quarter", "random"][k % 3], &mut r);
        let sc = stacks[(k / 7) % stacks.len()];
        // miniature robots (a table-top arm): a well conditioned Jacobian with a tiny determinant
        if k % 9 == 4 { let f = r.gen_range(0.03..0.08); p.a1 *= f; p.a2 *= f; p.b *= f; p.c1 *= f; p.c2 *= f; p.c3 *= f; p.c4 *= f; }
        // (one vector in four beyond a half turn; one in four is the very vector of the preceding call, given to
        //  another robot / stack)
        let span = if k % 4 == 1 { 6.3 } else { 3.0 };
        let mut q: Joints = std::array::from_fn(|_| r.gen_range(-span..span));
        if k % 4 == 3 { q = last_q; }
        // (one vector in sixteen is exactly wrist singular: the Jacobian loses rank, nothing is demanded of the
        //  velocities but an answer or an error value)
        if k % 16 == 5 { q[4] = p.offsets[4] * p.sign_corrections[4] as f64; }
        // robots with limits, standing exactly at (or within half a step of) an upper limit
        let limits = if k % 5 == 2 && k % 4 != 3 {
            let to: Joints = std::array::from_fn(|i| q[i] + r.gen_range(0.3..1.0));
            let from: Joints = std::array::from_fn(|i| q[i] - r.gen_range(0.3..1.0));
            let j = r.gen_range(0..6);
            q[j] = to[j] - if r.gen_bool(0.5) { 0.0 } else { EPS[k % 3] * 0.5 };
            Some((from, to, 0.0))
        } else { None };
        let mut robot = Robot::new(p, solver::stack_for(sc, &mut r), limits);
        // (one stack in eleven sits inside a robot with shape whose kinematics field was assigned after construction: the
        //  robot with shape answers for the kinematics it holds now)
        if k % 11 == 6 { robot.kin = std::sync::Arc::new(crate::shape::kws_around(robot.kin.clone())); }
        last_q = q;
        let started = std::time::Instant::now();
        out.put(event(&robot, &q, EPS[k % 3], &mut r, sc, if k % 4 >= 2 { 0 } else { 1 + (k * 7) % 16 }));
        if started.elapsed().as_millis() > 2000 { slow = true; }
        // every fortieth call: the last eight robots are asked again, all at the same time, each on a thread of its own
        // and twelve times over (the worst of the twelve is recorded; not any more once a single event has taken seconds): a Jacobian is that of the robot, the joints and the
        // step it was asked for, whatever else is being computed meanwhile
        recent.push((robot, q, EPS[k % 3], sc));
        if recent.len() > 8 { recent.remove(0); }
        if k % 40 == 39 && !slow {
            let seeds: Vec<u64> = (0..recent.len()).map(|i| 77_000 + (k * 8 + i) as u64).collect();
            let worst: Vec<Value> = std::thread::scope(|s| {
                let hs: Vec<_> = recent.iter().zip(&seeds).map(|((robot, q, eps, sc), seed)| s.spawn(move || {
                    let mut rr = rng(*seed);
                    let mut worst: Option<(i64, Value)> = None;
                    for _ in 0..12 {
                        let e = event(robot, q, *eps, &mut rr, sc, 0);
                        let score = if e["outcome"] == "ok" { ivec(&e["col_err_milli"]).into_iter().max().unwrap_or(0).max(e["torque_err_milli"].as_i64().unwrap_or(0)) } else { i64::MAX };
                        if worst.as_ref().map(|w| score > w.0).unwrap_or(true) { worst = Some((score, e)); }
                    }
                    worst.unwrap().1
                })).collect();
                hs.into_iter().map(|h| h.join().unwrap_or(json!({"ev": "jac", "outcome": "panic", "class": "concurrent"}))).collect()
            });
            for e in worst { out.put(e); }
        }
    }
    out.finish();
}
