//! C13: RRT. B1: complete behaviours of the TLA+ model (Gen_Rrt) replayed into the real
//! dual_rrt_connect (hook H2) with scripted sampling / freeness closures; B2: RRTPlanner::plan_rrt on
//! robots with shape, judged by Trace_Rrt.
use crate::shape;
use crate::util::*;
use rand::Rng;
use rs_opw_kinematics::kinematic_traits::Joints;
use rs_opw_kinematics::rrt::RRTPlanner;
use rs_opw_kinematics::verif_rrt::dual_rrt_connect;
use serde_json::{json, Value};
use std::cell::RefCell;
use std::collections::BTreeMap;
use std::sync::atomic::{AtomicBool, Ordering};
use std::sync::Arc;

pub fn replay(input: &str, output: &str) {
    quiet_panics();
    let lines = read_ndjson(input);
    let mut out = Out::create(output);
    // group the model's behaviours by scenario + sample script (nearest-neighbour ties give several)
    let mut groups: BTreeMap<String, Vec<&Value>> = BTreeMap::new();
    for l in &lines {
        let key = json!([l["start"], l["goal"], l["len"], l["blocked"], l["stop_at"], l["max_try"], l["samples"]]).to_string();
        groups.entry(key).or_default().push(l);
    }
    let mut evals = 0u64;
    let mut nontrivial = 0u64;
    let mut divergences = 0u64;
    for (n, (_key, behaviours)) in groups.iter().enumerate() {
        let b0 = behaviours[0];
        let start = [b0["start"].as_i64().unwrap() as f64];
        let goal = [b0["goal"].as_i64().unwrap() as f64];
        let len = b0["len"].as_i64().unwrap() as f64;
        let blocked: Vec<i64> = ivec(&b0["blocked"]);
        let stop_at = b0["stop_at"].as_i64().unwrap();
        let max_try = b0["max_try"].as_u64().unwrap() as usize;
        let script: Vec<f64> = ivec(&b0["samples"]).iter().map(|x| *x as f64).collect();
        let stop = AtomicBool::new(stop_at == 0);
        let queries: RefCell<Vec<(f64, bool)>> = RefCell::new(Vec::new());
        let drawn = RefCell::new(0usize);
        let overrun = RefCell::new(false);
        let result = guarded(|| {
            dual_rrt_connect(
                &start,
                &goal,
                |q: &[f64]| {
                    let free = !(q[0].fract() == 0.0 && blocked.contains(&(q[0] as i64)));
                    queries.borrow_mut().push((q[0], free));
                    free
                },
                || {
                    let mut k = drawn.borrow_mut();
                    *k += 1;
                    if *k as i64 == stop_at { stop.store(true, Ordering::Relaxed); }
                    if *k <= script.len() { vec![script[*k - 1]] } else { *overrun.borrow_mut() = true; stop.store(true, Ordering::Relaxed); vec![script.last().cloned().unwrap_or(0.0)] }
                },
                len,
                max_try,
                &stop,
            )
        });
        evals += 1;
        let desc = json!({"start": b0["start"], "goal": b0["goal"], "len": b0["len"], "blocked": b0["blocked"], "stop_at": stop_at, "max_try": max_try, "samples": b0["samples"]});
        let Some(result) = result else {
            out.put(json!({"sig": "rrt1d:panic", "detail": desc.to_string(), "data": desc}));
            continue;
        };
        let got_q: Vec<Value> = queries.borrow().iter().map(|(q, f)| json!([*q as i64, f])).collect();
        let got_r: Value = match &result { Ok(p) => json!(p.iter().map(|v| v[0] as i64).collect::<Vec<_>>()), Err(e) => json!([e]) };
        if result.is_ok() { nontrivial += 1; }
        // (1) property level: whatever the algorithm did, a returned path must satisfy C13 in this world
        let stop_class = if stop_at < 0 { "never" } else if stop_at == 0 { "before" } else { "during" };
        if let Ok(path) = &result {
            let cells: Vec<f64> = path.iter().map(|v| v[0]).collect();
            let mut bad: Vec<&str> = Vec::new();
            if cells.len() < 2 || cells[0] != start[0] || cells[cells.len() - 1] != goal[0] { bad.push("path-does-not-join-start-and-goal"); }
            if cells.iter().any(|c| c.fract() == 0.0 && blocked.contains(&(*c as i64))) { bad.push("blocked-node-on-path"); }
            if cells.windows(2).any(|w| (w[1] - w[0]).abs() > 3.0 * len + 1e-9) { bad.push("nodes-more-than-three-steps-apart"); }
            if stop_at == 0 { bad.push("path-returned-although-cancelled"); }
            for b in bad {
                out.put(json!({"sig": format!("rrt1d:{}:stop-{}", b, stop_class),
                    "detail": format!("real result {} (queries {}); {}", got_r, Value::Array(got_q.clone()), desc), "data": desc}));
            }
        }
        // (2) conformance: the run should be a behaviour of the Rrt model; a divergence alone is not a violation of
        // the property (the code may legitimately order its work differently), it is counted and shown in the evidence
        let matched = behaviours.iter().any(|b| b["queries"] == Value::Array(got_q.clone()) && b["result"] == got_r);
        if !matched || *overrun.borrow() { divergences += 1; }
        if n == 11 { out.put(json!({"sample": {"scenario": desc, "queries": got_q, "result": got_r}})); }
    }
    out.put(json!({"stats": {"lines": lines.len(), "groups": groups.len(), "evaluations": evals, "nontrivial": nontrivial, "divergences": divergences}}));
    out.finish();
}

/// B2: the real planner on robots with shape
pub fn record(output: &str) {
    quiet_panics();
    let mut out = Out::create(output);
    let mut r = rng(1313);
    let n = if thorough() { 120 } else { 14 };
    let mut made = 0;
    let mut tries = 0;
    while made < n && tries < n * 20 {
        tries += 1;
        let case = shape::make_case(&mut r, tries, 2 + tries % 3, tries % 4 == 3);
        let kws = &case.kws;
        let pick_free = |r: &mut rand::rngs::StdRng| -> Option<Joints> {
            for _ in 0..40 {
                let q: Joints = std::array::from_fn(|i| r.gen_range(case.from[i] * 0.7..case.to[i] * 0.7));
                if !kws.collides(&q) { return Some(q); }
            }
            None
        };
        let (Some(start), Some(goal)) = (pick_free(&mut r), pick_free(&mut r)) else { continue; };
        made += 1;
        let step_deg = [3.0, 6.0, 12.0][made % 3];
        let planner = RRTPlanner { step_size_joint_space: (step_deg as f64).to_radians(), max_try: [2000, 300, 40][made % 3], debug: false };
        for mode in ["plain", "stop-before", "stop-during"] {
            let stop = Arc::new(AtomicBool::new(mode == "stop-before"));
            let raiser = if mode == "stop-during" {
                let s = stop.clone();
                let delay = r.gen_range(0..3000u64);
                Some(std::thread::spawn(move || { std::thread::sleep(std::time::Duration::from_micros(delay)); s.store(true, Ordering::Relaxed); }))
            } else { None };
            let res = guarded(|| planner.plan_rrt(&start, &goal, kws, &stop));
            if let Some(h) = raiser { let _ = h.join(); }
            let mut e = json!({"ev": "rrtplan", "mode": mode, "step_au": rad2au(planner.step_size_joint_space), "max_try": planner.max_try,
                "start": au6(&start), "goal": au6(&goal), "from": au6(&case.from), "to": au6(&case.to), "case": made, "ctor": case.ctor});
            match res {
                None => { e["outcome"] = json!("panic"); e["nodes"] = json!([]); }
                Some(Err(msg)) => { e["outcome"] = json!("err"); e["msg"] = json!(msg); e["nodes"] = json!([]); }
                Some(Ok(path)) => {
                    e["outcome"] = json!("path");
                    let first_exact = path.first().map(|p| p == &start).unwrap_or(false);
                    let last_exact = path.last().map(|p| p == &goal).unwrap_or(false);
                    e["first_exact"] = json!(first_exact);
                    e["last_exact"] = json!(last_exact);
                    let nodes: Vec<Value> = path.iter().enumerate().map(|(i, q)| {
                        let d = if i == 0 { 0.0 } else { (0..6).map(|j| (q[j] - path[i - 1][j]).powi(2)).sum::<f64>().sqrt() };
                        json!({"q": au6(q), "collides": kws.collides(q), "step_milli": ((d / (3.0 * planner.step_size_joint_space)) * 1000.0).round() as i64})
                    }).collect();
                    e["nodes"] = json!(nodes);
                }
            }
            out.put(e);
        }
    }
    out.finish();
}
