//! C13: RRT. B1: complete behaviours of the TLA+ model (Gen_Rrt) replayed into the real
//! dual_rrt_connect (hook H2) with scripted sampling / freeness closures; B2: RRTPlanner::plan_rrt on
//! robots with shape, judged by Trace_Rrt.
use crate::shape;
use crate::util::*;
use rand::Rng;
use rs_opw_kinematics::kinematic_traits::Joints;
use rs_opw_kinematics::rrt::RRTPlanner;
use rs_opw_kinematics::verif_rrt::dual_rrt_connect;
use serde_json::{json, Value};
use std::cell::RefCell;
use std::collections::BTreeMap;
use std::sync::atomic::{AtomicBool, Ordering};
use std::sync::Arc;

pub fn replay(input: &str, output: &str) {
    quiet_panics();
    let lines = read_ndjson(input);
    let mut out = Out::create(output);
    // group the model's behaviours by scenario + sample script (nearest-neighbour ties give several)
    let mut groups: BTreeMap<String, Vec<&Value>> = BTreeMap::new();
    for l in &lines {
        let key = json!([l["start"], l["goal"], l["len"], l["blocked"], l["stop_at"], l["max_try"], l["samples"]]).to_string();
        groups.entry(key).or_default().push(l);
    }
    let mut evals = 0u64;
    let mut nontrivial = 0u64;
    let mut divergences = 0u64;
    for (n, (_key, behaviours)) in groups.iter().enumerate() {
        let b0 = behaviours[0];
        let start = [b0["start"].as_i64().unwrap() as f64];
        let goal = [b0["goal"].as_i64().unwrap() as f64];
        let len = b0["len"].as_i64().unwrap() as f64;
        let blocked: Vec<i64> = ivec(&b0["blocked"]);
        let stop_at = b0["stop_at"].as_i64().unwrap();
        let max_try = b0["max_try"].as_u64().unwrap() as usize;
        let script: Vec<f64> = ivec(&b0["samples"]).iter().map(|x| *x as f64).collect();
        let stop = AtomicBool::new(stop_at == 0);
        let queries: RefCell<Vec<(f64, bool)>> = RefCell::new(Vec::new());
        let drawn = RefCell::new(0usize);
        let overrun = RefCell::new(false);
        let result = guarded(|| {
            dual_rrt_connect(
                &start,
                &goal,
                |q: &[f64]| {
                    let free = !(q[0].fract() == 0.0 && blocked.contains(&(q[0] as i64)));
                    queries.borrow_mut().push((q[0], free));
                    free
                },
                || {
                    let mut k = drawn.borrow_mut();
                    *k += 1;
                    if *k as i64 == stop_at { stop.store(true, Ordering::Relaxed); }
                    if *k <= script.len() { vec![script[*k - 1]] } else { *overrun.borrow_mut() = true; stop.store(true, Ordering::Relaxed); vec![script.last().cloned().unwrap_or(0.0)] }
                },
                len,
                max_try,
                &stop,
            )
        });
        evals += 1;
        let desc = json!({"start": b0["start"], "goal": b0["goal"], "len": b0["len"], "blocked": b0["blocked"], "stop_at": stop_at, "max_try": max_try, "samples": b0["samples"]});
        let Some(result) = result else {
            out.put(json!({"sig": "rrt1d:panic", "detail": desc.to_string(), "data": desc}));
            continue;
        };
        let got_q: Vec<Value> = queries.borrow().iter().map(|(q, f)| json!([*q as i64, f])).collect();
        let got_r: Value = match &result { Ok(p) => json!(p.iter().map(|v| v[0] as i64).collect::<Vec<_>>()), Err(e) => json!([e]) };
        if result.is_ok() { nontrivial += 1; }
        // (1) property level: whatever the algorithm did, a returned path must satisfy C13 in this world
        let stop_class = if stop_at < 0 { "never" } else if stop_at == 0 { "before" } else { "during" };
        if let Ok(path) = &result {
            let cells: Vec<f64> = path.iter().map(|v| v[0]).collect();
            let mut bad: Vec<&str> = Vec::new();
            if cells.len() < 2 || cells[0] != start[0] || cells[cells.len() - 1] != goal[0] { bad.push("path-does-not-join-start-and-goal"); }
            if cells.iter().any(|c| c.fract() == 0.0 && blocked.contains(&(*c as i64))) { bad.push("blocked-node-on-path"); }
            if cells.windows(2).any(|w| (w[1] - w[0]).abs() > 3.0 * len + 1e-9) { bad.push("nodes-more-than-three-steps-apart"); }
            if stop_at == 0 { bad.push("path-returned-although-cancelled"); }
            // the flag went up while sample number stop_at was drawn: the iteration under way may still finish (and
            // connect the trees), but a planner that goes on drawing samples has looked past the raised flag
            if stop_at > 0 && (*drawn.borrow() as i64) > stop_at { bad.push("path-returned-although-cancelled-during-planning"); }
            for b in bad {
                out.put(json!({"sig": format!("rrt1d:{}:stop-{}", b, stop_class),
                    "detail": format!("real result {} (queries {}); {}", got_r, Value::Array(got_q.clone()), desc), "data": desc}));
            }
        }
        // (2) conformance: the run should be a behaviour of the Rrt model; a divergence alone is not a violation of
        // the property (the code may legitimately order its work differently), it is counted and shown in the evidence
        let matched = behaviours.iter().any(|b| b["queries"] == Value::Array(got_q.clone()) && b["result"] == got_r);
        if !matched || *overrun.borrow() { divergences += 1; }
        if n == 11 { out.put(json!({"sample": {"scenario": desc, "queries": got_q, "result": got_r}})); }
    }
    out.put(json!({"stats": {"lines": lines.len(), "groups": groups.len(), "evaluations": evals, "nontrivial": nontrivial, "divergences": divergences}}));
    out.finish();
}

/// B2: the real planner on robots with shape
pub fn record(output: &str) {
    quiet_panics();
    let mut out = Out::create(output);
    let mut r = rng(1313);
    let n = if thorough() { 120 } else { 26 };
    let mut made = 0;
    let mut tries = 0;
    while made < n && tries < n * 20 {
        tries += 1;
        // every third robot has an asymmetric, non-wrapping J1 range that reaches beyond 180 degrees
        let asym = tries % 3 == 1;
        // (cluttered, so that the direct connection is often blocked and the planner has to sample)
        // a pillar at arm's reach between start and goal: the stretched arm cannot sweep through it, the planner has to
        // sample its way around (identity base, axial tool: case index even and divisible by 3)
        let mid: Joints = [1.4, 1.1, 0.1, 0.0, 0.45, 0.0];
        let fl = crate::oracle::chain(&rs_opw_kinematics::parameters::opw_kinematics::Parameters::irb2400_10(), &mid)[5].t;
        // a radial slab made of thin plates 5 cm apart (collision detection works on surfaces: a link cube inside a solid
        // box would not touch it), thicker than a planner step
        let slab: Vec<crate::scene::WBox> = (0..6).map(|i| crate::scene::WBox { c: [fl[0] - 0.125 + 0.05 * i as f64, fl[1], fl[2]], h: [0.004, 0.4, 0.7] }).collect();
        // a thin horizontal plate 3 cm above the sweep of the flange: inside the 7 cm safety distance, not touching
        let plate_case = tries % 3 == 2;
        let plate = crate::scene::WBox { c: [fl[0], fl[1], fl[2] + 0.07], h: [0.35, 0.35, 0.004] };
        // (every second slab case keeps a 7 cm safety distance to the environment)
        // every sixth cell is empty: the only thing to run into is the robot itself (bulky links, tool, base)
        let selfc = !asym && !plate_case && tries % 6 == 0;
        let case = if selfc { shape::make_case_with(&mut r, 3 * tries + 2, 0, false, None, &[]) }
                   else if asym { shape::make_case_with(&mut r, 6 * tries, 0, tries % 2 == 0, Some((0.15, 6.1)), &slab) }
                   else if plate_case { shape::make_case_with(&mut r, 6 * tries, 0, true, None, &[plate]) }
                   // (every second cluttered cell belongs to a robot whose limits were narrowed after its constraints were created)
                   else { shape::make_case_with(&mut r, if tries % 2 == 1 { 5 * tries + 1 } else { tries }, 2 + tries % 3, tries % 4 == 3, None, &[]) };
        let kws = &case.kws;
        let pick_free = |r: &mut rand::rngs::StdRng| -> Option<Joints> {
            for _ in 0..40 {
                let q: Joints = std::array::from_fn(|i| if i == 0 && asym { r.gen_range(0.2..0.6) } else { r.gen_range(case.from[i] * 0.7..case.to[i] * 0.7) });
                if !kws.collides(&q) { return Some(q); }
            }
            None
        };
        let (start, goal) = if asym || plate_case {
            // stretched arm on either side of the pillar
            let s: Joints = [r.gen_range(0.3..0.7), r.gen_range(1.0..1.2), r.gen_range(0.0..0.2), 0.0, r.gen_range(0.3..0.6), 0.0];
            let g: Joints = [r.gen_range(2.1..2.6), r.gen_range(1.0..1.2), r.gen_range(0.0..0.2), 0.0, r.gen_range(0.3..0.6), 0.0];
            if kws.collides(&s) || kws.collides(&g) { continue; }
            if std::env::var("VERIF_DEBUG").is_ok() { eprintln!("pillar/plate case {}: mid collides = {} details {:?} env {}", plate_case, kws.collides(&mid), kws.collision_details(&mid), kws.body.collision_environment.len()); }
            (s, g)
        } else if selfc {
            // free ends whose straight connection in joint space runs through a self-collision
            let mut found = None;
            for _ in 0..300 {
                let (Some(s), Some(g)) = (pick_free(&mut r), pick_free(&mut r)) else { break; };
                let through = (1..20).any(|i| { let f = i as f64 / 20.0; let m: Joints = std::array::from_fn(|j| s[j] + (g[j] - s[j]) * f); kws.collides(&m) });
                if through { found = Some((s, g)); break; }
            }
            let Some(sg) = found else { continue; };
            sg
        } else if tries % 12 == 3 {
            // start and goal 0.03 to 0.3 degrees (a small fraction of a planner step) inside the limits of most joints
            let near = |r: &mut rand::rngs::StdRng, upper: bool| -> Option<Joints> {
                for _ in 0..60 {
                    let q: Joints = std::array::from_fn(|i| if i == 1 { r.gen_range(case.from[1] * 0.6..case.to[1] * 0.6) } else if r.gen_bool(0.8) {
                        if upper { case.to[i] - r.gen_range(0.0005..0.005) } else { case.from[i] + r.gen_range(0.0005..0.005) } } else { r.gen_range(case.from[i] * 0.7..case.to[i] * 0.7) });
                    if !kws.collides(&q) { return Some(q); }
                }
                None
            };
            // (preferably a pair whose straight connection is blocked, so that the planner has to sample)
            let up = r.gen_bool(0.5);
            let mut found = None;
            for attempt in 0..120 {
                let (Some(s), Some(g)) = (near(&mut r, up), near(&mut r, up)) else { break; };
                let through = (1..20).any(|i| { let f = i as f64 / 20.0; let m: Joints = std::array::from_fn(|j| s[j] + (g[j] - s[j]) * f); kws.collides(&m) });
                if through || attempt == 119 { found = Some((s, g)); break; }
            }
            let Some(sg) = found else { continue; };
            sg
        } else {
            let (Some(s), Some(g)) = (pick_free(&mut r), pick_free(&mut r)) else { continue; };
            (s, g)
        };
        made += 1;
        // (start/goal next to the limits: steps of 3 or 6 degrees - the margins are a small fraction of either - and the
        //  full try budget)
        let near_limits_case = !asym && !plate_case && !selfc && tries % 12 == 3;
        let step_deg = if near_limits_case { [3.0, 6.0][made % 2] } else { [3.0, 6.0, 12.0, 0.5][made % 4] };
        let planner = RRTPlanner { step_size_joint_space: (step_deg as f64).to_radians(), max_try: if near_limits_case { 2000 } else { [2000, 300, 40][made % 3] }, debug: false };
        let shared = Arc::new(AtomicBool::new(true));     // one flag raised once by the caller, guarding several calls
        let near_limits = !asym && !plate_case && !selfc && tries % 12 == 3;
        let modes: Vec<&str> = if near_limits { vec!["plain", "plain", "plain", "plain", "plain", "plain", "plain", "stop-before", "stop-during"] }
                               else { vec!["plain", "stop-before", "stop-during", "stop-before-again", "nowhere-plain", "nowhere-stop-before"] };
        let mut first_path: Option<Vec<Joints>> = None;
        for mode in modes {
            // (the last two: a relocation to where the robot already is)
            let goal = if mode.starts_with("nowhere") { start } else { goal };
            let mode = mode.trim_start_matches("nowhere-");
            let stop = if mode == "stop-before" || mode == "stop-before-again" { shared.clone() } else { Arc::new(AtomicBool::new(false)) };
            let raiser = if mode == "stop-during" {
                let s = stop.clone();
                let delay = r.gen_range(0..3000u64);
                Some(std::thread::spawn(move || { std::thread::sleep(std::time::Duration::from_micros(delay)); s.store(true, Ordering::Relaxed); }))
            } else { None };
            let res = guarded(|| planner.plan_rrt(&start, &goal, kws, &stop));
            if let Some(h) = raiser { let _ = h.join(); }
            let mode = if mode == "stop-before-again" { "stop-before" } else { mode };
            let mut e = json!({"ev": "rrtplan", "mode": mode, "step_au": rad2au(planner.step_size_joint_space), "max_try": planner.max_try,
                "start": au6(&start), "goal": au6(&goal), "from": au6(&case.from), "to": au6(&case.to), "case": made, "ctor": case.ctor, "empty_cell": selfc, "nowhere": goal == start});
            match res {
                None => { e["outcome"] = json!("panic"); e["nodes"] = json!([]); }
                Some(Err(msg)) => { e["outcome"] = json!("err"); e["msg"] = json!(msg); e["nodes"] = json!([]); }
                Some(Ok(path)) => {
                    e["outcome"] = json!("path");
                    let first_exact = path.first().map(|p| p == &start).unwrap_or(false);
                    let last_exact = path.last().map(|p| p == &goal).unwrap_or(false);
                    e["first_exact"] = json!(first_exact);
                    e["last_exact"] = json!(last_exact);
                    let nodes: Vec<Value> = path.iter().enumerate().map(|(i, q)| {
                        let d = if i == 0 { 0.0 } else { (0..6).map(|j| (q[j] - path[i - 1][j]).powi(2)).sum::<f64>().sqrt() };
                        json!({"q": au6(q), "collides": kws.collides(q), "step_milli": ((d / (3.0 * planner.step_size_joint_space)) * 1000.0).round() as i64})
                    }).collect();
                    e["nodes"] = json!(nodes);
                    if first_path.is_none() && goal != start && path.len() >= 3 { first_path = Some(path.clone()); }
                }
            }
            out.put(e);
        }
        // the same relocation asked again after the cell changed: a box where the flange was at the middle node of the
        // first path (pushed into the public environment list), and a planner with a finer step - the path returned now
        // has to be free in the cell as it is now and spaced by the step given now
        if let Some(p1) = first_path {
            let midq = p1[p1.len() / 2];
            let tcp = case.kws.kinematics.forward(&midq).translation.vector;
            let b = crate::scene::WBox { c: [tcp.x, tcp.y, tcp.z], h: [0.06, 0.06, 0.06] };
            let pose = nalgebra::Isometry3::identity();
            let mut case = case;
            case.kws.body.collision_environment.push(rs_opw_kinematics::collisions::CollisionBody { mesh: crate::scene::local_mesh(&b, false, &pose), pose: pose.cast() });
            let kws = &case.kws;
            if !kws.collides(&start) && !kws.collides(&goal) {
                let planner = RRTPlanner { step_size_joint_space: planner.step_size_joint_space / 4.0, max_try: 2000, debug: false };
                let stop = Arc::new(AtomicBool::new(false));
                let res = guarded(|| planner.plan_rrt(&start, &goal, kws, &stop));
                let mut e = json!({"ev": "rrtplan", "mode": "plain", "replanned": true, "step_au": rad2au(planner.step_size_joint_space), "max_try": planner.max_try,
                    "start": au6(&start), "goal": au6(&goal), "from": au6(&case.from), "to": au6(&case.to), "case": made, "ctor": case.ctor, "empty_cell": false, "nowhere": false});
                match res {
                    None => { e["outcome"] = json!("panic"); e["nodes"] = json!([]); }
                    Some(Err(msg)) => { e["outcome"] = json!("err"); e["msg"] = json!(msg); e["nodes"] = json!([]); }
                    Some(Ok(path)) => {
                        e["outcome"] = json!("path");
                        e["first_exact"] = json!(path.first().map(|p| p == &start).unwrap_or(false));
                        e["last_exact"] = json!(path.last().map(|p| p == &goal).unwrap_or(false));
                        let nodes: Vec<Value> = path.iter().enumerate().map(|(i, q)| {
                            let d = if i == 0 { 0.0 } else { (0..6).map(|j| (q[j] - path[i - 1][j]).powi(2)).sum::<f64>().sqrt() };
                            json!({"q": au6(q), "collides": kws.collides(q), "step_milli": ((d / (3.0 * planner.step_size_joint_space)) * 1000.0).round() as i64})
                        }).collect();
                        e["nodes"] = json!(nodes);
                    }
                }
                out.put(e);
            }
        }
    }
    out.finish();
}

/// C18 (and C13): the planner draws its samples from the constraints of the robot; with a wrap-around range on a
/// joint (from > to) planning must not panic. Collision checking is switched off.
pub fn replay_wrap_sampling(output: &str) {
    quiet_panics();
    let mut out = Out::create(output);
    let mut r = rng(1818);
    let mut evals = 0u64;
    let mut nontrivial = 0u64;
    for k in 0..(if thorough() { 40 } else { 8 }) {
        // joint 1 may move on the arc from 150 degrees through 180 to -150 degrees (60 degrees wide)
        let mut case = shape::make_case_with(&mut r, k, 0, false, Some((2.618, -2.618)), &[]);
        case.kws.body.safety.mode = rs_opw_kinematics::collisions::CheckMode::NoCheck;
        let pick = |r: &mut rand::rngs::StdRng| -> Joints { std::array::from_fn(|i| if i == 0 { let a = r.gen_range(2.7..3.5f64); if a > std::f64::consts::PI { a - 2.0 * std::f64::consts::PI } else { a } } else { r.gen_range(case.from[i] * 0.6..case.to[i] * 0.6) }) };
        let (start, goal) = (pick(&mut r), pick(&mut r));
        let planner = RRTPlanner { step_size_joint_space: 3.0f64.to_radians(), max_try: 200, debug: false };
        let stop = Arc::new(AtomicBool::new(false));
        evals += 1;
        match guarded(|| planner.plan_rrt(&start, &goal, &case.kws, &stop)) {
            None => out.put(json!({"sig": "sampler:planning-panics-with-a-wrap-around-range", "detail": format!("J1 limited to 150 .. -150 degrees; start {:?} goal {:?}", start, goal)})),
            // (nothing is demanded of the nodes: C13 speaks of non-wrapping limits only - the planner moves in R^6 and
            //  may join 190 and 175 degrees the long way round)
            Some(Ok(_)) => { nontrivial += 1; }
            Some(Err(_)) => {}
        }
    }
    // two robots whose (ordinary, non-wrapping) J1 ranges lie on opposite sides plan one after the other, start and goal
    // of the second a fraction of a planner step inside the end of its range that faces the other robot's: with checking
    // off every node lies between points of the robot's own ranges, so it is inside them - provided the planner samples
    // the ranges of the robot it was given
    for k in 0..(if thorough() { 60 } else { 12 }) {
        let mut a = shape::make_case_with(&mut r, 2 * k, 0, false, Some((-2.9, -2.0)), &[]);
        let mut b = shape::make_case_with(&mut r, 2 * k + 1, 0, false, Some((2.0, 2.9)), &[]);
        a.kws.body.safety.mode = rs_opw_kinematics::collisions::CheckMode::NoCheck;
        b.kws.body.safety.mode = rs_opw_kinematics::collisions::CheckMode::NoCheck;
        let planner = RRTPlanner { step_size_joint_space: [12.0f64, 6.0, 3.0][k % 3].to_radians(), max_try: 200, debug: false };
        let stop = Arc::new(AtomicBool::new(false));
        let pick = |r: &mut rand::rngs::StdRng, c: &shape::ShapeCase, j1: f64| -> Joints { std::array::from_fn(|i| if i == 0 { j1 } else { r.gen_range(c.from[i] * 0.6..c.to[i] * 0.6) }) };
        let (sa, ga) = (pick(&mut r, &a, -2.5), pick(&mut r, &a, -2.2));
        let _ = guarded(|| planner.plan_rrt(&sa, &ga, &a.kws, &stop));
        // (every second pair starts next to the other end of the range, so that it does not matter on which side the
        //  robots that planned earlier in this process have their ranges)
        let (j1s, j1g) = if k % 2 == 0 { (2.0 + r.gen_range(0.002..0.02), 2.0 + r.gen_range(0.002..0.02)) } else { (2.9 - r.gen_range(0.002..0.02), 2.9 - r.gen_range(0.002..0.02)) };
        let (sb, gb) = (pick(&mut r, &b, j1s), pick(&mut r, &b, j1g));
        evals += 1;
        match guarded(|| planner.plan_rrt(&sb, &gb, &b.kws, &stop)) {
            None => out.put(json!({"sig": "sampler:planning-panics", "detail": format!("start {:?} goal {:?}", sb, gb)})),
            Some(Ok(path)) => {
                nontrivial += 1;
                if std::env::var("VERIF_LOUD").is_ok() { eprintln!("B path J1: {:?} limits {} {}", path.iter().map(|q| q[0]).collect::<Vec<_>>(), b.from[0], b.to[0]); }
                if let Some(q) = path.iter().find(|q| (0..6).any(|i| q[i] < b.from[i] - 1e-9 || q[i] > b.to[i] + 1e-9)) {
                    out.put(json!({"sig": "sampler:planner-node-outside-the-ranges-of-its-own-robot", "detail": format!("node {:?}; ranges {:?} .. {:?}; the robot that planned just before has J1 in -2.9 .. -2.0", q, b.from, b.to)}));
                }
            }
            Some(Err(_)) => {}
        }
    }
    out.put(json!({"stats": {"lines": 0, "evaluations": evals, "nontrivial": nontrivial}}));
    out.finish();
}
