//! C16: parallelogram coupling. B1 replay of Gen_Pgram (exact forward / link poses at the reduced
//! vector, round trip of every inverse entry point).
use crate::chain::{joints_for, lattice_params, UNIT_M};
use crate::lattice;
use crate::oracle::{self, Iso};
use crate::solver::{self, LayerF};
use crate::util::*;
use rs_opw_kinematics::kinematic_traits::{Joints, Kinematics};
use rs_opw_kinematics::kinematics_impl::OPWKinematics;
use serde_json::json;
use std::sync::Arc;

pub fn replay(input: &str, output: &str) {
    quiet_panics();
    let lines = read_ndjson(input);
    let mut out = Out::create(output);
    let mut evals = 0u64;
    let mut nontrivial = 0u64;
    let tol = 1e-9;
    let mut previous_wrapper: Option<Arc<dyn Kinematics>> = None;
    for (id, line) in lines.iter().enumerate() {
        let p = lattice_params(&line["p"]);
        let e = ivec(&line["e"]);
        let layers: Vec<LayerF> = line["layers"].as_array().unwrap().iter().map(|l| LayerF::Pgram {
            driven: l["d"].as_u64().unwrap() as usize - 1,
            coupled: l["c"].as_u64().unwrap() as usize - 1,
            scaling: l["s2"].as_i64().unwrap() as f64 / 2.0,
        }).collect();
        let want: Vec<Iso> = line["links"].as_array().unwrap().iter().map(|l| lattice::iso(l, UNIT_M)).collect();
        let q: Joints = joints_for(&p, &e, &[0; 6]);
        let kin = solver::wrap(&layers, Arc::new(OPWKinematics::new(p)));
        let desc = json!({"layers": line["layers"], "e": e, "inner_e": line["inner_e"]});
        let shape = if layers.is_empty() { "none".to_string() } else { format!("depth{}", layers.len()) };
        if !layers.is_empty() { nontrivial += 1; }
        // the previously built (differently configured) wrapper is asked first, at the bit-identical joint vector:
        // results must not leak from one wrapper object to another
        if let Some(pw) = &previous_wrapper { let _ = guarded(|| (pw.forward(&q), pw.forward_with_joint_poses(&q))); }
        previous_wrapper = Some(kin.clone());
        let Some((fwd, links)) = guarded(|| (kin.forward(&q), kin.forward_with_joint_poses(&q))) else {
            out.put(json!({"sig": format!("pgram:{}:forward-panics", shape), "detail": desc.to_string()}));
            continue;
        };
        evals += 2;
        let (dp, dr) = lattice::iso_max_diff(&Iso::from_na(&fwd), &want[5]);
        if !(dp <= tol && dr <= tol) {
            out.put(json!({"sig": format!("pgram:{}:forward-differs-from-inner-at-reduced-vector", shape), "detail": format!("off by {:.3e} m / {:.3e}; {}", dp, dr, desc), "data": desc}));
        }
        for i in 0..6 {
            let (dp, dr) = lattice::iso_max_diff(&Iso::from_na(&links[i]), &want[i]);
            if !(dp <= tol && dr <= tol) {
                out.put(json!({"sig": format!("pgram:{}:link-poses-differ-from-inner-at-reduced-vector", shape), "detail": format!("link {} off by {:.3e} m / {:.3e}; {}", i + 1, dp, dr, desc), "data": desc}));
                break;
            }
        }
        // every answer of every inverse entry point maps back through the wrapper's own forward
        let pose = want[5].to_na();
        let prev: Joints = std::array::from_fn(|i| q[i] + 0.02 * (i as f64 - 2.0));
        for entry in ["inverse", "inverse_continuing", "inverse_5dof", "inverse_continuing_5dof"] {
            let Some(ans) = solver::call(kin.as_ref(), entry, &pose, &prev, q[5]) else {
                out.put(json!({"sig": format!("pgram:{}:{}:panic", shape, entry), "detail": desc.to_string()}));
                continue;
            };
            evals += 1;
            for a in &ans {
                let back = Iso::from_na(&kin.forward(a));
                // independent model as well: leaf chain at the reduced vector
                let mut leafq = *a;
                for l in &layers { if let LayerF::Pgram { driven, coupled, scaling } = l { leafq[*coupled] -= scaling * leafq[*driven]; } }
                let back2 = oracle::fk(&p, &leafq);
                let five = entry.contains("5dof");
                let bad = |b: &Iso| b.dpos(&want[5]) > 1.2e-6 || (!five && b.drot(&want[5]) > 1.2e-6);
                if bad(&back) || bad(&back2) {
                    out.put(json!({"sig": format!("pgram:{}:{}:answer-misses-pose", shape, entry), "detail": format!("answer {:?}: {:.3e} m / {:.3e} rad away; {}", a, back2.dpos(&want[5]), back2.drot(&want[5]), desc), "data": desc}));
                }
            }
            if id % 50 == 0 && entry == "inverse" {
                out.put(json!({"sample": {"layers": line["layers"], "e": e, "inner_e": line["inner_e"], "answers": ans.len()}}));
            }
        }
    }
    out.put(json!({"stats": {"lines": lines.len(), "evaluations": evals, "nontrivial": nontrivial}}));
    out.finish();
}
