//! C11: KinematicsWithShape = order-preserving filter of the underlying stack Tool(Base(OPW+limits)).
use crate::oracle::{self, Iso};
use crate::scene::{self, Scene, WBox, BASE, ENV0, TOOL};
use crate::solver::{self, LayerF, Robot};
use crate::util::*;
use rand::Rng;
use rs_opw_kinematics::collisions::{CheckMode, CollisionBody, SafetyDistances};
use rs_opw_kinematics::constraints::{Constraints, BY_PREV};
use rs_opw_kinematics::kinematic_traits::{Joints, Kinematics};
use rs_opw_kinematics::kinematics_with_shape::KinematicsWithShape;
use rs_opw_kinematics::parameters::opw_kinematics::Parameters;
use serde_json::json;
use std::collections::HashMap;

pub struct ShapeCase {
    pub kws: KinematicsWithShape,
    pub reference: Robot,        // harness-built Tool(Base(OPW+limits)) with the independent forward model
    pub from: Joints,
    pub to: Joints,
    pub ctor: &'static str,
}

/// A robot with shape: small cubes on every link origin, a tool cube, a base block and random environment
/// boxes. `q0` is verified collision free by the caller.
pub fn make_case(r: &mut rand::rngs::StdRng, k: usize, nenv: usize, safety_margin: bool) -> ShapeCase {
    make_case_with(r, k, nenv, safety_margin, None, &[])
}

/// `j1_limits`: optional non-wrapping J1 range (e.g. one that reaches beyond 180 degrees)
pub fn make_case_with(r: &mut rand::rngs::StdRng, k: usize, nenv: usize, safety_margin: bool, j1_limits: Option<(f64, f64)>, extra_env: &[WBox]) -> ShapeCase {
    make_case_scaled(r, k, nenv, safety_margin, j1_limits, extra_env, 1.0)
}

/// `scale`: all link lengths of the robot multiplied by it (a large robot of the same proportions)
pub fn make_case_scaled(r: &mut rand::rngs::StdRng, k: usize, nenv: usize, safety_margin: bool, j1_limits: Option<(f64, f64)>, extra_env: &[WBox], scale: f64) -> ShapeCase {
    let mut p = Parameters::irb2400_10();
    p.a1 *= scale; p.a2 *= scale; p.b *= scale; p.c1 *= scale; p.c2 *= scale; p.c3 *= scale; p.c4 *= scale;
    let base_iso = if k % 3 == 0 { Iso::identity() } else { solver::random_iso(r, 0.3) };
    let tool_iso = if k % 2 == 0 { Iso { r: oracle::I3, t: [0.0, 0.0, 0.15] } } else { solver::random_iso(r, 0.15) };
    // (every fourth case has J6 limits that are not centred at zero)
    let from: Joints = [-3.0, -1.7, -1.0, -3.4, -2.0, if k % 4 == 2 { -1.0 } else { -6.0 }];
    let mut to: Joints = [3.0, 1.9, 1.1, 3.4, 2.0, 6.0];
    let mut from = from;
    // (one case in seven has limits of nearly two turns on every joint, so that all eight branches are legal)
    if k % 7 == 3 && j1_limits.is_none() { from = [-6.0; 6]; to = [6.0; 6]; }
    if let Some((a, b)) = j1_limits { from[0] = a; to[0] = b; }
    let reference = Robot::new(p, vec![LayerF::Tool(tool_iso), LayerF::Base(base_iso)], Some((from, to, 0.0)));
    let q_lay: Joints = [0.0, 0.2, 0.1, 0.0, 0.9, 0.0];
    let links = reference.kin.forward_with_joint_poses(&q_lay);
    let mut sc = Scene::spread(true, true, nenv);
    for i in 0..6 {
        let o = links[i].translation.vector;
        let idx = sc.idx(i);
        // every third case has bulky links so that some IK branches self-collide even without environment
        let hl = if k % 3 == 2 { [0.07, 0.07, 0.07] } else { [0.03, 0.03, 0.03] };
        sc.boxes[idx] = WBox { c: [o.x, o.y, o.z + 0.001 * i as f64], h: hl };
    }
    let fl = links[5];
    let tip = fl * nalgebra::Point3::new(0.0, 0.0, 0.09);
    let it = sc.idx(TOOL);
    sc.boxes[it] = WBox { c: [tip.x, tip.y, tip.z], h: [0.015, 0.015, 0.03] };
    let ib = sc.idx(BASE);
    let bo = base_iso.t;
    sc.boxes[ib] = WBox { c: [bo[0], bo[1], bo[2] - 0.3], h: [0.2, 0.2, 0.1] };
    for e in 0..nenv {
        let ie = sc.idx(ENV0 + e);
        // boxes scattered in the workspace (pillars, plates)
        let c = [r.gen_range(-1.3..1.3), r.gen_range(-1.3..1.3), r.gen_range(0.0..1.6)];
        let h = match e % 3 { 0 => [0.08, 0.08, 0.6], 1 => [0.5, 0.5, 0.03], _ => [0.15, 0.15, 0.15] };
        sc.boxes[ie] = WBox { c: [c[0] + bo[0], c[1] + bo[1], c[2] + bo[2]], h };
    }
    // meshes local to their links at q_lay
    let joint_meshes: [parry3d::shape::TriMesh; 6] = std::array::from_fn(|i| { let x = sc.idx(i); scene::local_mesh(&sc.boxes[x], false, &links[i]) });
    let tool_mesh = scene::local_mesh(&sc.boxes[it], false, &links[5]);
    let base_na = base_iso.to_na();
    let base_mesh = scene::local_mesh(&sc.boxes[ib], false, &base_na);
    let env: Vec<CollisionBody> = (0..nenv).map(|e| {
        let ie = sc.idx(ENV0 + e);
        let pose = nalgebra::Isometry3::identity();
        CollisionBody { mesh: scene::local_mesh(&sc.boxes[ie], e % 2 == 0, &pose), pose: pose.cast() }
    }).collect();
    let mut env = env;
    for b in extra_env {
        let pose = nalgebra::Isometry3::identity();
        env.push(CollisionBody { mesh: scene::local_mesh(b, false, &pose), pose: pose.cast() });
    }
    // (one robot in five got its limits narrowed after the constraints were created)
    let constraints = if k % 5 == 1 {
        let mut c = Constraints::new([-6.0; 6], [6.0; 6], BY_PREV);
        c.update_range(from, to);
        c
    } else { Constraints::new(from, to, BY_PREV) };
    let (kws, ctor) = if k % 2 == 0 && !safety_margin {
        (KinematicsWithShape::new(p, constraints, joint_meshes, base_mesh, base_na, tool_mesh, tool_iso.to_na(), env, k % 4 == 0), "new")
    } else {
        let mut special: HashMap<(u16, u16), f32> = HashMap::new();
        special.insert((0, 101), -1.0); // J1 sits on the base block
        special.insert((1, 101), -1.0);
        let safety = SafetyDistances {
            to_environment: if safety_margin { 0.07 } else { 0.0 },
            to_robot_default: if safety_margin { 0.005 } else { 0.0 },
            special_distances: special,
            // (one case in eleven has collision checking switched off altogether: nothing collides then)
            mode: if k % 11 == 7 { CheckMode::NoCheck } else if k % 4 == 1 { CheckMode::FirstCollisionOnly } else { CheckMode::AllCollsions },
        };
        (KinematicsWithShape::with_safety(p, constraints, joint_meshes, base_mesh, base_na, tool_mesh, tool_iso.to_na(), env, safety), "with_safety")
    };
    ShapeCase { kws, reference, from, to, ctor }
}

pub fn record(output: &str) {
    quiet_panics();
    let mut out = Out::create(output);
    let mut r = rng(1111);
    let n = if thorough() { 1500 } else { 130 };
    let nano = |x: f64| -> i64 { if x.is_finite() { (x * 1e9).round().min(2e9) as i64 } else { 2_000_000_000 } };
    for k in 0..n {
        // (one cell in six is crowded: 18 to 21 environment objects)
        let nenv = if k % 3 == 2 { 0 } else if k % 6 == 4 { 18 + k % 4 } else { 2 + k % 4 };
        let mut case = make_case(&mut r, k, nenv, k % 5 == 4);
        let mut checking = case.kws.body.safety.mode != CheckMode::NoCheck;
        let mut reconfigured = false;
        // rep 4 repeats the pose of rep 0 after the cell was re-configured through the public fields of the body
        let mut pose0: Option<(Joints, Joints)> = None;
        for rep in 0..6 {
            if rep == 4 {
                // an obstacle at the tool of the first free answer of the earlier query (even cases), or a safety
                // margin of 25 cm towards the environment (odd cases)
                let Some((q0, _)) = pose0 else { continue };
                let free: Vec<Joints> = case.kws.kinematics.inverse(&case.reference.ofk(&q0).to_na()).into_iter().filter(|a| !case.kws.collides(a)).collect();
                let Some(a) = free.first() else { continue };
                if k % 2 == 0 {
                    let tcp = case.kws.kinematics.forward(a).translation.vector;
                    let b = WBox { c: [tcp.x, tcp.y, tcp.z], h: [0.1, 0.1, 0.1] };
                    let pose = nalgebra::Isometry3::identity();
                    case.kws.body.collision_environment.push(CollisionBody { mesh: scene::local_mesh(&b, false, &pose), pose: pose.cast() });
                } else {
                    case.kws.body.safety.to_environment = 0.25;
                }
                // (every third cell also has its check mode switched through the public field: checking switched on in a
                //  cell that was built without, all collisions instead of the first one and the other way round)
                if k % 3 == 1 {
                    case.kws.body.safety.mode = match case.kws.body.safety.mode { CheckMode::NoCheck => CheckMode::AllCollsions, CheckMode::AllCollsions => CheckMode::FirstCollisionOnly, _ => CheckMode::AllCollsions };
                    checking = true;
                }
                reconfigured = true;
            }
            let kws = &case.kws;
            let mut q: Joints = std::array::from_fn(|i| r.gen_range(case.from[i] * 0.8..case.to[i] * 0.8));
            if rep == 0 { pose0 = Some((q, q)); }
            if rep == 4 { q = pose0.unwrap().0; }
            // rep 2: almost (not exactly) wrist singular with previous = the current position (the continuation returns
            // near-identical neighbours); rep 3: the CONSTRAINT_CENTERED sentinel
            if rep == 2 { q[4] = 10f64.powf(r.gen_range(-7.0..-3.8)); }
            let want = case.reference.ofk(&q);
            let pose = want.to_na();
            // rep 5: one small step of a Cartesian move: previous = the stack's own answer for the pose 2 um .. 0.9 mm back
            // along a random direction (same orientation)
            let stepped: Option<Joints> = if rep == 5 {
                let d = [r.gen_range(-1.0..1.0), r.gen_range(-1.0..1.0), r.gen_range(-1.0..1.0f64)];
                let len = 10f64.powf(r.gen_range(-5.7..-3.05)) / oracle::norm(&d).max(1e-3);
                let mut back = want;
                back.t = oracle::add(&back.t, &oracle::scale(len, &d));
                guarded(|| kws.kinematics.inverse_continuing(&back.to_na(), &q)).and_then(|a| a.first().copied())
            } else { None };
            let prev: Joints = if let Some(p) = stepped { p } else if rep == 2 { q } else if rep == 3 { rs_opw_kinematics::kinematic_traits::CONSTRAINT_CENTERED } else { std::array::from_fn(|i| q[i] + r.gen_range(-0.1..0.1)) };
            // (the continuation entries are asked a second time right away, for the same pose and another previous vector:
            //  the wrist wound up by a turn, or half a radian away in every joint)
            let prev2: Joints = if rep % 2 == 0 { let mut p2 = prev; p2[3] += 2.0 * std::f64::consts::PI; p2[5] -= 2.0 * std::f64::consts::PI; p2 } else { std::array::from_fn(|i| q[i] + if i % 2 == 0 { 0.5 } else { -0.5 }) };
            for (nth, (entry, prev)) in [("inverse", prev), ("inverse_continuing", prev), ("inverse_continuing", prev2), ("inverse_5dof", prev), ("inverse_continuing_5dof", prev), ("inverse_continuing_5dof", prev2)].into_iter().enumerate() {
                // 5-DOF entries presuppose an axial tool: only for the axial-tool cases
                if entry.contains("5dof") && k % 2 != 0 { continue; }
                // (the sentinel has no wound-up variant)
                if rep == 3 && (nth == 2 || nth == 5) { continue; }
                let pool = 1 + (k * 5 + rep * 3) % 16;
                let inner = solver::call(kws.kinematics.as_ref(), entry, &pose, &prev, q[5]);
                // (odd repetitions on the calling thread itself, the others inside a pool of the given size)
                let outer = if rep % 2 == 1 { solver::call(kws, entry, &pose, &prev, q[5]) } else { in_pool(pool, || solver::call(kws, entry, &pose, &prev, q[5])) };
                let (Some(inner), Some(outer)) = (inner, outer) else {
                    out.put(json!({"ev": "shape", "outcome": "panic", "entry": entry, "ctor": case.ctor}));
                    continue;
                };
                let coll: Vec<bool> = inner.iter().map(|a| kws.collides(a)).collect();
                // independent check that `collides` is the body's verdict
                let coll_body: Vec<bool> = inner.iter().map(|a| kws.body.collides(a, kws.kinematics.as_ref())).collect();
                // forward / link poses / limits / singularity are those of the underlying stack
                let f = Iso::from_na(&kws.forward(&q));
                let links = kws.forward_with_joint_poses(&q);
                let want_links: Vec<Iso> = {
                    let chain = oracle::chain(&case.reference.p, &q);
                    let base = match &case.reference.layers[1] { LayerF::Base(b) => *b, _ => Iso::identity() };
                    chain.iter().map(|l| base.mul(l)).collect()
                };
                let link_err = (0..6).map(|i| Iso::from_na(&links[i]).dpos(&want_links[i]).max(Iso::from_na(&links[i]).drot(&want_links[i]))).fold(0.0, f64::max);
                let lim_same = match kws.constraints() { Some(c) => c.from == case.from && c.to == case.to, None => false };
                let qs: Joints = [q[0], q[1], q[2], q[3], 0.0, q[5]];
                // (also for a singular vector outside the limits: the report is the stack's, whatever the limits say)
                let mut q_out = qs;
                q_out[2] = case.to[2] + 0.9;      // (joint 3: its range is narrow enough for this to be outside modulo a turn)
                let sing_same = kws.kinematic_singularity(&qs).is_some() && kws.kinematic_singularity(&q).is_some() == (q[4].sin().abs() < 1.7e-4)
                    && kws.kinematic_singularity(&q_out).is_some() == kws.kinematics.kinematic_singularity(&q_out).is_some() && kws.kinematic_singularity(&q_out).is_some();
                // the pair reports of the robot with shape are the body's own (same kinematics, same joints)
                let norm = |v: Vec<(usize, usize)>| { let mut v: Vec<(usize, usize)> = v.into_iter().map(|p| (p.0.min(p.1), p.0.max(p.1))).collect(); v.sort(); v };
                let wide = SafetyDistances { to_environment: 0.3, to_robot_default: 0.05, special_distances: kws.body.safety.special_distances.clone(), mode: CheckMode::AllCollsions };
                let first_only = kws.body.safety.mode == CheckMode::FirstCollisionOnly;
                let details_same = first_only || norm(kws.collision_details(&q)) == norm(kws.body.collision_details(&q, kws.kinematics.as_ref()));
                let near_same = norm(kws.near(&q, &wide)) == norm(kws.body.near(&q, kws.kinematics.as_ref(), &wide));
                // the mesh helper behind the positioned robot: every vertex moved by the transform, same triangles
                let tm_ok = {
                    let t: nalgebra::Isometry3<f32> = links[2].cast();
                    let src = &kws.body.joint_meshes[2];
                    match guarded(|| rs_opw_kinematics::collisions::transform_mesh(src, &t)) {
                        Some(m) => m.indices() == src.indices() && m.vertices().len() == src.vertices().len()
                            && m.vertices().iter().zip(src.vertices()).all(|(a, b)| (a - t.transform_point(b)).norm() < 1e-5),
                        None => false,
                    }
                };
                let pr = kws.positioned_robot(&q);
                let mut pos_ok = pr.joints.len() == 6 && pr.tool.is_some() && pr.environment.len() == kws.body.collision_environment.len();
                for i in 0..6.min(pr.joints.len()) {
                    let t: nalgebra::Isometry3<f32> = links[i].cast();
                    if pr.joints[i].transform != t { pos_ok = false; }
                }
                if !tm_ok { pos_ok = false; }
                if let Some(t) = &pr.tool { let t6: nalgebra::Isometry3<f32> = links[5].cast(); if t.transform != t6 { pos_ok = false; } }
                // every answer of the robot with shape maps back onto the requested pose (tool point and axis for the 5-DOF entries)
                let outer_n = outer.iter().map(|a| {
                    if !a.iter().all(|x| x.is_finite()) { return 2_000_000_000i64; }
                    let b = case.reference.ofk(a);
                    nano(b.dpos(&want).max(if entry.contains("5dof") { b.daxis(&want) } else { b.drot(&want) }))
                }).max().unwrap_or(0);
                out.put(json!({"ev": "shape", "outcome": "ok", "entry": entry, "ctor": case.ctor, "case": k, "outer_n": outer_n,
                    "inner": inner.iter().map(au6).collect::<Vec<_>>(), "outer": outer.iter().map(au6).collect::<Vec<_>>(),
                    "collides": coll, "collides_body": coll_body, "outer_exact_subsequence": is_subsequence(&outer, &inner, &coll),
                    "fwd_n": nano(f.dpos(&want).max(f.drot(&want))), "links_n": nano(link_err), "limits_same": lim_same, "sing_same": sing_same, "positioned_ok": pos_ok, "rep": rep,
                    "checking": checking, "reconfigured": reconfigured, "details_same": details_same, "near_same": near_same, "pool": pool, "nenv": kws.body.collision_environment.len()}));
            }
        }
    }
    out.finish();
}

/// bitwise: outer is exactly the sub-sequence of inner whose collides flag is false
fn is_subsequence(outer: &[Joints], inner: &[Joints], coll: &[bool]) -> bool {
    let want: Vec<&Joints> = inner.iter().zip(coll).filter(|(_, c)| !**c).map(|(q, _)| q).collect();
    want.len() == outer.len() && want.iter().zip(outer).all(|(a, b)| (0..6).all(|i| a[i].to_bits() == b[i].to_bits()))
}

/// A robot with shape around given kinematics and body: built by the library's constructor (tiny placeholder meshes)
/// and then given its two public fields - a struct literal would stop compiling as soon as the struct gains a field.
pub fn kws_from(kinematics: std::sync::Arc<dyn Kinematics>, body: rs_opw_kinematics::collisions::RobotBody) -> KinematicsWithShape {
    let tiny = || { let pose = nalgebra::Isometry3::identity(); scene::local_mesh(&WBox { c: [0.0, 0.0, 0.0], h: [0.001, 0.001, 0.001] }, false, &pose) };
    let safety = SafetyDistances { to_environment: 0.0, to_robot_default: 0.0, special_distances: HashMap::new(), mode: CheckMode::NoCheck };
    let mut kws = KinematicsWithShape::with_safety(Parameters::irb2400_10(), Constraints::new([-1.0; 6], [1.0; 6], BY_PREV), std::array::from_fn(|_| tiny()), tiny(),
        nalgebra::Isometry3::identity(), tiny(), nalgebra::Isometry3::identity(), vec![], safety);
    kws.kinematics = kinematics;
    kws.body = body;
    kws
}

/// A robot with shape (tiny placeholder meshes, checking off) whose public kinematics field was replaced by the given
/// stack after construction.
pub fn kws_around(kinematics: std::sync::Arc<dyn Kinematics>) -> KinematicsWithShape {
    let tiny = || { let pose = nalgebra::Isometry3::identity(); scene::local_mesh(&WBox { c: [0.0, 0.0, 0.0], h: [0.001, 0.001, 0.001] }, false, &pose) };
    let safety = SafetyDistances { to_environment: 0.0, to_robot_default: 0.0, special_distances: HashMap::new(), mode: CheckMode::NoCheck };
    let mut kws = KinematicsWithShape::with_safety(Parameters::irb2400_10(), Constraints::new([-1.0; 6], [1.0; 6], BY_PREV), std::array::from_fn(|_| tiny()), tiny(),
        nalgebra::Isometry3::identity(), tiny(), nalgebra::Isometry3::identity(), vec![], safety);
    kws.kinematics = kinematics;
    kws
}
