//! C01, C02, C04, C06, C08 (and the inverse clauses of C09/C16): scenario-driven recording of inverse
//! kinematics calls with oracle facts, judged by spec/Trace_Solver.tla.
use crate::oracle::{self, Iso};
use crate::robots;
use crate::util::*;
use rand::rngs::StdRng;
use rand::Rng;
use rs_opw_kinematics::constraints::Constraints;
use rs_opw_kinematics::frame::Frame;
use rs_opw_kinematics::kinematic_traits::{Joints, Kinematics, Pose, Solutions, CONSTRAINT_CENTERED};
use rs_opw_kinematics::kinematics_impl::OPWKinematics;
use rs_opw_kinematics::parallelogram::Parallelogram;
use rs_opw_kinematics::parameters::opw_kinematics::Parameters;
use rs_opw_kinematics::tool::{Base, Tool};
use serde_json::{json, Value};
use std::f64::consts::PI;
use std::sync::Arc;

#[derive(Clone, Debug)]
pub enum LayerF {
    Tool(Iso),
    Frame(Iso),
    Base(Iso),
    Pgram { driven: usize, coupled: usize, scaling: f64 },
}

pub struct Robot {
    pub p: Parameters,
    pub layers: Vec<LayerF>, // outermost first
    pub limits: Option<(Joints, Joints, f64)>,
    pub kin: Arc<dyn Kinematics>,
    pub free: Arc<dyn Kinematics>,
}

pub fn wrap(layers: &[LayerF], leaf: Arc<dyn Kinematics>) -> Arc<dyn Kinematics> {
    let mut cur = leaf;
    for l in layers.iter().rev() {
        cur = match l {
            LayerF::Tool(i) => Arc::new(Tool { robot: cur, tool: i.to_na() }),
            LayerF::Frame(i) => Arc::new(Frame { robot: cur, frame: i.to_na() }),
            LayerF::Base(i) => Arc::new(Base { robot: cur, base: i.to_na() }),
            LayerF::Pgram { driven, coupled, scaling } => Arc::new(Parallelogram { robot: cur, driven: *driven, coupled: *coupled, scaling: *scaling }),
        };
    }
    cur
}

fn leaf_for(p: Parameters, limits: &Option<(Joints, Joints, f64)>) -> Arc<dyn Kinematics> { Arc::new(leaf_val(p, limits)) }

fn leaf_val(p: Parameters, limits: &Option<(Joints, Joints, f64)>) -> OPWKinematics {
        match limits {
            // one constrained robot in eight comes out of the URDF route: URDFParameters { .. }.to_robot(weight, offsets)
            Some((f, t, w)) if (f[1].to_bits() >> 5) & 7 == 3 => {
                let u = rs_opw_kinematics::urdf::URDFParameters { a1: p.a1, a2: p.a2, b: p.b, c1: p.c1, c2: p.c2, c3: p.c3, c4: p.c4,
                    sign_corrections: p.sign_corrections, from: *f, to: *t, dof: p.dof };
                u.to_robot(*w, &p.offsets)
            }
            // one in eight has its limits written in degrees
            Some((f, t, w)) if (f[1].to_bits() >> 5) & 7 == 5 => {
                let c = Constraints::from_degrees(std::array::from_fn(|i| f[i].to_degrees()..=t[i].to_degrees()), *w);
                OPWKinematics::new_with_constraints(p, c)
            }
            Some((f, t, w)) => {
                // every second constrained robot obtains its limits through update_range from unrelated ones
                // (the unrelated ones are narrow or permissive, so that stale state of either kind would show)
                let c = match (f[0].to_bits() >> 3) & 3 {
                    0 => Constraints::new(*f, *t, *w),
                    // (the sorting weight is a public field: constructed with another weight, then assigned)
                    1 => { let mut c = Constraints::new(*f, *t, [0.0, 1.0, 0.5][(f[2].to_bits() >> 7) as usize % 3]); c.sorting_weight = *w; c }
                    2 => {
                        let mut c = Constraints::new([0.3, -2.0, 1.0, 2.9, -0.2, -0.4], [0.9, -1.0, 1.1, 3.3, 0.2, 0.1], *w);
                        c.update_range(*f, *t);
                        c
                    }
                    _ => {
                        let mut c = Constraints::new([-2.4, -3.1, -1.9, -3.0, -2.2, -3.1], [3.1, 2.0, 3.1, 2.6, 3.0, 2.3], *w);
                        c.update_range(*f, *t);
                        c
                    }
                };
                OPWKinematics::new_with_constraints(p, c)
            }
            None => OPWKinematics::new(p),
        }
}

impl Robot {
    pub fn new(p: Parameters, layers: Vec<LayerF>, limits: Option<(Joints, Joints, f64)>) -> Robot {
        let free: Arc<dyn Kinematics> = wrap(&layers, Arc::new(OPWKinematics::new(p)));
        let kin: Arc<dyn Kinematics> = wrap(&layers, leaf_for(p, &limits));
        Robot { p, layers, limits, kin, free }
    }
    /// The wrappers are configured by their (public) fields, not by their history: rebuild the outermost wrapper
    /// with another transform / coupling, let it answer the coming query once, then assign the real value to its
    /// field in place (same object, same address).
    pub fn reseat(&mut self, pose: &Pose, prev: &Joints, j6: f64, q: &Joints, r: &mut StdRng) {
        let seed = |k: &dyn Kinematics| {
            for entry in ["inverse", "inverse_continuing", "inverse_5dof", "inverse_continuing_5dof"] { let _ = call(k, entry, pose, prev, j6); }
            let _ = guarded(|| (k.forward(q), k.forward_with_joint_poses(q)));
        };
        let Some(first) = self.layers.first().cloned() else {
            // a bare solver: another configuration (other limits or none, or a description a fraction of a millimetre
            // off) answers the query, then the real configuration is assigned to the same object
            let other_limits = match &self.limits {
                Some(_) if r.gen_bool(0.35) => None,
                // (limits that limit nothing: from = to on every joint)
                Some(_) if r.gen_bool(0.4) => { let v: Joints = std::array::from_fn(|_| r.gen_range(-3.0..3.0)); Some((v, v, 0.0)) }
                _ => Some((std::array::from_fn(|i| q[i] - r.gen_range(0.2..2.5)), std::array::from_fn(|i| q[i] + r.gen_range(0.2..2.5)), [0.0, 1.0, 0.5][r.gen_range(0..3)])),
            };
            let mut other_p = self.p;
            if r.gen_bool(0.5) { other_p.c2 += 0.4e-3; other_p.a2 -= 0.3e-3; }
            let mut a = Arc::new(leaf_val(other_p, &other_limits));
            seed(a.as_ref());
            *Arc::get_mut(&mut a).unwrap() = leaf_val(self.p, &self.limits);
            self.kin = a;
            return;
        };
        let inner = wrap(&self.layers[1..], leaf_for(self.p, &self.limits));
        let other = random_iso(r, 0.3).to_na();
        self.kin = match first {
            LayerF::Tool(i) => { let mut a = Arc::new(Tool { robot: inner, tool: other }); seed(a.as_ref()); Arc::get_mut(&mut a).unwrap().tool = i.to_na(); a }
            LayerF::Frame(i) => { let mut a = Arc::new(Frame { robot: inner, frame: other }); seed(a.as_ref()); Arc::get_mut(&mut a).unwrap().frame = i.to_na(); a }
            LayerF::Base(i) => { let mut a = Arc::new(Base { robot: inner, base: other }); seed(a.as_ref()); Arc::get_mut(&mut a).unwrap().base = i.to_na(); a }
            LayerF::Pgram { driven, coupled, scaling } => {
                let mut a = Arc::new(Parallelogram { robot: inner, driven, coupled, scaling: scaling + r.gen_range(0.3..1.0) });
                seed(a.as_ref());
                Arc::get_mut(&mut a).unwrap().scaling = scaling;
                a
            }
        };
    }
    /// joint vector seen by the leaf (parallelogram couplings applied, outermost first)
    pub fn leaf_joints(&self, q: &Joints) -> Joints {
        let mut q = *q;
        for l in &self.layers {
            if let LayerF::Pgram { driven, coupled, scaling } = l {
                q[*coupled] -= scaling * q[*driven];
            }
        }
        q
    }
    /// independent forward model of the whole stack
    pub fn ofk(&self, q: &Joints) -> Iso {
        let mut cur = oracle::fk(&self.p, &self.leaf_joints(q));
        for l in self.layers.iter().rev() {
            match l {
                LayerF::Tool(i) | LayerF::Frame(i) => cur = cur.mul(i),
                LayerF::Base(i) => cur = i.mul(&cur),
                _ => {}
            }
        }
        cur
    }
}

pub fn random_iso(r: &mut StdRng, reach: f64) -> Iso {
    // one in eight is a pure rotation (no translation), one in eight a pure translation
    let kind = r.gen_range(0..8);
    let reach = if kind == 0 { 1e-300 } else { reach };
    let ax = [r.gen_range(-1.0..1.0), r.gen_range(-1.0..1.0), r.gen_range(-1.0..1.0f64)];
    let n = oracle::norm(&ax).max(1e-3);
    let a = if kind == 1 { 0.0 } else { r.gen_range(-PI..PI) };
    let q = nalgebra::UnitQuaternion::from_axis_angle(&nalgebra::Unit::new_normalize(nalgebra::Vector3::new(ax[0] / n, ax[1] / n, ax[2] / n)), a);
    // one in eight is a mounting orientation: pitched by exactly a quarter turn (wall) or half a turn (ceiling), with
    // any yaw and roll, or yaw and roll that are quarter turns themselves
    let q = if kind == 2 {
        let quarter = |r: &mut StdRng| r.gen_range(-2..=2) as f64 * std::f64::consts::FRAC_PI_2;
        let pitch = [std::f64::consts::FRAC_PI_2, -std::f64::consts::FRAC_PI_2, PI][r.gen_range(0..3)];
        let (roll, yaw) = if r.gen_bool(0.5) { (r.gen_range(-PI..PI), r.gen_range(-PI..PI)) } else { (quarter(r), quarter(r)) };
        nalgebra::UnitQuaternion::from_euler_angles(roll, pitch, yaw)
    } else { q };
    let iso = nalgebra::Isometry3::from_parts(nalgebra::Translation3::new(r.gen_range(-reach..reach), r.gen_range(-reach..reach), r.gen_range(-reach..reach)), q);
    Iso::from_na(&iso)
}

pub fn axial_iso(r: &mut StdRng) -> Iso {
    Iso { r: oracle::rot('z', r.gen_range(-PI..PI)), t: [0.0, 0.0, r.gen_range(0.02..0.4)] }
}

pub fn pgram5(r: &mut StdRng) -> LayerF {
    let driven = r.gen_range(0..5);
    let mut coupled = r.gen_range(0..4);
    if coupled >= driven { coupled += 1; }
    LayerF::Pgram { driven, coupled, scaling: [1.0, -1.0, 0.5, 1.3][r.gen_range(0..4)] }
}

pub fn random_pgram(r: &mut StdRng) -> LayerF {
    let driven = r.gen_range(0..6);
    let mut coupled = r.gen_range(0..5);
    if coupled >= driven { coupled += 1; }
    let scaling = match r.gen_range(0..4) { 0 => 1.0, 1 => -1.0, _ => r.gen_range(-2.0..2.0) };
    LayerF::Pgram { driven, coupled, scaling }
}

/// joint vector of the whole stack that makes the leaf see `leaf_q` (couplings undone, innermost first)
pub fn outer_joints(layers: &[LayerF], leaf_q: &Joints) -> Joints {
    let mut q = *leaf_q;
    for l in layers.iter().rev() {
        if let LayerF::Pgram { driven, coupled, scaling } = l {
            q[*coupled] += scaling * q[*driven];
        }
    }
    q
}

pub fn stack_for(class: &str, r: &mut StdRng) -> Vec<LayerF> {
    match class {
        "tool" => vec![LayerF::Tool(random_iso(r, 0.3))],
        "base" => vec![LayerF::Base(random_iso(r, 0.5))],
        "base+tool" => vec![LayerF::Tool(random_iso(r, 0.3)), LayerF::Base(random_iso(r, 0.5))],
        "tool>base" => vec![LayerF::Base(random_iso(r, 0.5)), LayerF::Tool(random_iso(r, 0.3))],
        "frame" => vec![LayerF::Frame(random_iso(r, 0.3))],
        "pgram" => vec![random_pgram(r)],
        "tool>pgram" => vec![LayerF::Tool(random_iso(r, 0.3)), random_pgram(r)],
        "pgram>pgram" => {
            // half of the stacks are chained: the outer coupled joint drives the inner coupling, non-integer scaling
            let outer = random_pgram(r);
            let inner = if r.gen_bool(0.5) {
                if let LayerF::Pgram { driven, coupled, .. } = &outer {
                    let mut c2 = r.gen_range(0..4);
                    while c2 == *coupled || c2 == *driven { c2 = (c2 + 1) % 6; }
                    LayerF::Pgram { driven: *coupled, coupled: c2, scaling: [0.5, -0.5, 1.5, 0.3][r.gen_range(0..4)] }
                } else { random_pgram(r) }
            } else { random_pgram(r) };
            vec![outer, inner]
        }
        "pgram>tool" => vec![random_pgram(r), LayerF::Tool(random_iso(r, 0.3))],
        "pgram>base+tool" => vec![random_pgram(r), LayerF::Tool(random_iso(r, 0.3)), LayerF::Base(random_iso(r, 0.5))],
        "axial-tool" => vec![LayerF::Tool(axial_iso(r))],
        // couplings for the 5-DOF entries: neither the driven nor the coupled joint is joint 6 (it carries the caller's value)
        "pgram5" => vec![pgram5(r)],
        "pgram5>base" => vec![pgram5(r), LayerF::Base(random_iso(r, 0.5))],
        "pgram5>base+axial-tool" => vec![pgram5(r), LayerF::Tool(axial_iso(r)), LayerF::Base(random_iso(r, 0.5))],
        "axial-frame" => vec![LayerF::Frame(axial_iso(r))],
        "base+axial-frame" => vec![LayerF::Frame(axial_iso(r)), LayerF::Base(random_iso(r, 0.5))],
        "base+axial-tool" => vec![LayerF::Tool(axial_iso(r)), LayerF::Base(random_iso(r, 0.5))],
        _ => vec![],
    }
}

fn norm_pi(x: f64) -> f64 {
    let mut a = x.rem_euclid(2.0 * PI);
    if a > PI { a -= 2.0 * PI; }
    a
}

pub struct Margins {
    pub wrist: f64,
    pub elbow: f64,
    pub shoulder: f64,
}

/// singularity margins of a leaf joint vector, in the effective angles of the OPW model
pub fn margins(p: &Parameters, q: &Joints) -> Margins {
    let e = oracle::effective(p, q);
    let psi3 = p.a2.atan2(p.c3);
    let k = (p.a2 * p.a2 + p.c3 * p.c3).sqrt();
    let cx1 = p.c2 * e[1].sin() + k * (e[1] + e[2] + psi3).sin() + p.a1;
    Margins { wrist: e[4].sin().abs(), elbow: (e[2] + psi3).sin().abs(), shoulder: cx1.abs() }
}

pub fn nonsingular(m: &Margins) -> bool { m.wrist > 0.05 && m.elbow > 0.05 && m.shoulder > 0.05 }

/// effective angles -> joint vector normalised to [-pi, pi]
fn from_effective(p: &Parameters, e: &[f64; 6]) -> Joints {
    std::array::from_fn(|i| {
        let s = if p.sign_corrections[i] == 0 { 1.0 } else { p.sign_corrections[i] as f64 };
        norm_pi((e[i] + p.offsets[i]) * s)
    })
}

/// a truth configuration (effective angles) of the requested pose class
fn truth_for(class: &str, p: &mut Parameters, r: &mut StdRng) -> [f64; 6] {
    let psi3 = |p: &Parameters| p.a2.atan2(p.c3);
    let mut attempts = 0;
    loop {
        attempts += 1;
        let mut e: [f64; 6] = std::array::from_fn(|_| r.gen_range(-PI..PI));
        // (a geometry that cannot take the requested class - e.g. a shoulder offset longer than the arm - gets a
        //  generic posture after 400 draws)
        let class = if attempts > 400 { if attempts == 401 && std::env::var("VERIF_LOUD").is_ok() { eprintln!("truth_for: no {} posture for {:?}", class, robots::params_json(p)); } "fallback" } else { class };
        match class {
            "j5-zero" => e[4] = 0.0,
            // (a third far below any resolution, a third inside the 0.01 degree singularity band but well above the accuracy,
            //  a third in between: around the accuracy itself, where a value may neither be rounded away nor blown up)
            "j5-tiny" => e[4] = 10f64.powf(match r.gen_range(0..3) { 0 => r.gen_range(-12.5..-8.5), 1 => r.gen_range(-5.0..-3.8), _ => r.gen_range(-8.5..-5.0) }) * if r.gen_bool(0.5) { 1.0 } else { -1.0 },
            "j5-pi" => e[4] = PI,
            "stretched" | "barely-out" => e[2] = -psi3(p),
            "on-j1-axis" | "near-j1-axis" => {
                // signed distance of the wrist centre from the J1 axis (in the arm plane): 0, or anything between the
                // J1 axis and the J2 axis and as far again on the other side (|x| < |a1|)
                let x = if class == "on-j1-axis" { p.b = 0.0; 0.0 } else { r.gen_range(-1.0..1.0) * p.a1.abs().max(0.15) };
                let k = (p.a2 * p.a2 + p.c3 * p.c3).sqrt();
                let phi = r.gen_range(-1.0..1.0f64);
                e[2] = phi - psi3(p);
                let amp = (p.c2 * p.c2 + k * k + 2.0 * p.c2 * k * phi.cos()).sqrt();
                if amp <= (x - p.a1).abs() * 1.05 { continue; }
                let delta = (k * phi.sin()).atan2(p.c2 + k * phi.cos());
                e[1] = ((x - p.a1) / amp).asin() - delta;
            }
            _ => {}
        }
        if class == "generic" || class == "unreachable" || class == "nan" || class == "inf" || class == "near-j1-axis" {
            let q = from_effective(p, &e);
            if !nonsingular(&margins(p, &q)) { continue; }
        }
        return e;
    }
}

fn limits_for(class: &str, q: &Joints, w: f64, r: &mut StdRng) -> Option<(Joints, Joints, f64)> {
    let narrow = |x: f64| (x - 0.1, x + 0.1);
    let wide = |x: f64| ((x - 2.0).max(-2.0 * PI), (x + 2.0).min(2.0 * PI));
    let wrapr = |x: f64| (x - 0.5 + if x - 0.5 < 0.0 { 2.0 * PI } else { 0.0 }, x + 0.5 - if x - 0.5 < 0.0 { 0.0 } else { 2.0 * PI });
    let mut f = [0.0; 6];
    let mut t = [0.0; 6];
    for j in 0..6 {
        let (a, b) = match class {
            "none" => return None,
            "wide" => wide(q[j]),
            "narrow" => narrow(q[j]),
            "wrap" => { let (a, b) = wrapr(q[j]); if a > b { (a, b) } else { wide(q[j]) } }
            // windows of more than a full turn on some joints (+-270, +-350 degrees, or shifted), wide ones on the others
            "beyond-turn" => match r.gen_range(0..3) { 0 => (-4.7, 4.7), 1 => { let c = r.gen_range(-0.5..0.5); (c - 6.1, c + 6.1) } _ => wide(q[j]) },
            // windows of +-4e-6 rad (2.3 AU) around the originating J1 and J2: far narrower than any resolution of the
            // check, but limits all the same - answers on other branches are far outside
            "sliver" => if j < 2 { (q[j] - 4.0e-6, q[j] + 4.0e-6) } else { wide(q[j]) },
            // everything but a gap of 3e-5 .. 3e-2 rad around the originating value of one joint (written either as a
            // window of almost a full turn or as a wrap-around range); wide windows on the others
            "gap" => if j == (q[1].abs() * 1000.0) as usize % 6 {
                let w = 10f64.powf(r.gen_range(-4.5..-1.5));
                if r.gen_bool(0.5) { (q[j] + w / 2.0, q[j] - w / 2.0 + 2.0 * PI) } else { (q[j] + w / 2.0, q[j] - w / 2.0) }
            } else { wide(q[j]) },
            "some-equal" => match r.gen_range(0..3) { 0 => { let v = r.gen_range(-3.0..3.0); (v, v) } 1 => narrow(q[j]), _ => wide(q[j]) },
            _ => if j == (q[0].abs() * 1000.0) as usize % 6 { (q[j] + 0.5, q[j] + 0.8) } else { wide(q[j]) },
        };
        f[j] = a;
        t[j] = b;
    }
    Some((f, t, w))
}

pub fn call(k: &dyn Kinematics, entry: &str, pose: &Pose, prev: &Joints, j6: f64) -> Option<Solutions> {
    // (a pose has at most eight solution branches; a list of thousands of answers is kept to its first entries, which
    //  are judged like any others, and the recording stops after the current event - lists that grow from call to
    //  call would otherwise exhaust time and memory before anything is judged)
    let mut r = call_raw(k, entry, pose, prev, j6);
    if let Some(a) = &mut r {
        if a.len() > 4096 {
            if std::env::var("VERIF_LOUD").is_ok() { eprintln!("call {} returned {} answers", entry, a.len()); }
            FLOOD.store(true, std::sync::atomic::Ordering::Relaxed);
            a.truncate(64);
        }
    }
    r
}
pub static NO_HUGE: std::sync::atomic::AtomicBool = std::sync::atomic::AtomicBool::new(false);
pub static FLOOD: std::sync::atomic::AtomicBool = std::sync::atomic::AtomicBool::new(false);

fn call_raw(k: &dyn Kinematics, entry: &str, pose: &Pose, prev: &Joints, j6: f64) -> Option<Solutions> {
    guarded(|| match entry {
        "inverse" => k.inverse(pose),
        "inverse_continuing" => k.inverse_continuing(pose, prev),
        "inverse_5dof" => k.inverse_5dof(pose, j6),
        _ => k.inverse_continuing_5dof(pose, prev),
    })
}

fn nano(x: f64) -> i64 { if x.is_finite() { (x * 1e9).round().min(2e9) as i64 } else { 2_000_000_000 } }

pub fn answer_facts(robot: &Robot, want: &Iso, a: &Joints) -> Value {
    let finite = a.iter().all(|x| x.is_finite());
    if !finite {
        return json!({"q": au6(a), "finite": false, "pos_nm": 2_000_000_000i64, "rot_nrad": 2_000_000_000i64, "axis_nrad": 2_000_000_000i64});
    }
    let back = robot.ofk(a);
    json!({"q": au6(a), "finite": true, "pos_nm": nano(back.dpos(want)), "rot_nrad": nano(back.drot(want)), "axis_nrad": nano(back.daxis(want))})
}

fn centres(robot: &Robot) -> [f64; 6] {
    match &robot.limits { Some((f, t, w)) => Constraints::new(*f, *t, *w).centers, None => [0.0; 6] }
}

/// How far the answers are from being whole-turn shifts of the plain solutions they stand for (1e-12 rad): the largest
/// remainder over the answers that are a plain solution to 1e-5 rad modulo whole turns, joints 1..nj.
pub fn rep_dev(ans: &Solutions, plain: &Solutions, nj: usize) -> i64 {
    let mut worst = 0i64;
    for a in ans.iter() {
        let dev = plain.iter().map(|p| (0..nj).map(|j| { let d = (a[j] - p[j]).rem_euclid(2.0 * PI); d.min(2.0 * PI - d) }).fold(0.0, f64::max)).fold(f64::INFINITY, f64::min);
        if dev < 1e-5 { worst = worst.max((dev * 1e12).round() as i64); }
    }
    worst
}

/// The robot description of a scenario.
pub fn make_params(sc: &Value, r: &mut StdRng) -> Parameters {
    let dof = sc["dof"].as_i64().unwrap() as i8;
    let mut p = robots::geometry(sc["geom"].as_str().unwrap(), r);
    // one description in ten is written in another length unit (millimetres, centimetres, inches): the solver's
    // accuracy is stated in the unit of the description
    if r.gen_bool(0.1) {
        let u = [1000.0, 100.0, 39.37007874015748][r.gen_range(0..3)];
        p.a1 *= u; p.a2 *= u; p.b *= u; p.c1 *= u; p.c2 *= u; p.c3 *= u; p.c4 *= u;
    }
    p = robots::convention(p, sc["signs"].as_u64().unwrap() as usize, sc["offsets"].as_str().unwrap(), r);
    // one robot in twelve is one of the eleven presets of the library, with the conventions it comes with
    if r.gen_bool(0.08) { let all = robots::named_robots(); p = all[r.gen_range(0..all.len())].1; }
    p.dof = dof;
    if dof == 5 && r.gen_bool(0.5) { p.sign_corrections[5] = 0; }
    if dof == 5 && r.gen_bool(0.4) {
        // a robot declared 5-DOF in a parameter file: through to_yaml / from_yaml_file (dof entry at the top level,
        // or inside the geometric parameters as in the bundled 5-DOF example)
        let mut text = p.to_yaml();
        if r.gen_bool(0.5) { text = text.replace("\ndof: 5\n", "\n").replace("  c4: ", "  dof: 5\n  c4: "); }
        let path = std::env::temp_dir().join(format!("opwv-ik-{}-{}.yaml", std::process::id(), sc["id"]));
        if std::fs::write(&path, text).is_ok() {
            if let Some(Ok(q)) = guarded(|| Parameters::from_yaml_file(&path)) { p = q; }
            let _ = std::fs::remove_file(&path);
        }
    }
    p
}

/// One scenario instance -> one "ik" event.
pub fn instance(sc: &Value, r: &mut StdRng) -> Value {
    let p = make_params(sc, r);
    // two single calls in three are made from inside a worker pool of 1 .. 13 threads (an answer does not depend on how
    // many workers the caller's pool has), the others - like all calls of a family - on the recording thread itself
    let n = SINGLES.fetch_add(1, std::sync::atomic::Ordering::Relaxed);
    POOL.store([0, 1 + (n / 3) % 13, 1 + (n / 3 * 7 + 5) % 13][n % 3], std::sync::atomic::Ordering::Relaxed);
    let ev = instance_p(sc, p, None, r).0;
    POOL.store(0, std::sync::atomic::Ordering::Relaxed);
    ev
}
thread_local! { static LAST_FWD_Q: std::cell::Cell<Joints> = std::cell::Cell::new([0.0; 6]); }
static SINGLES: std::sync::atomic::AtomicUsize = std::sync::atomic::AtomicUsize::new(0);
static POOL: std::sync::atomic::AtomicUsize = std::sync::atomic::AtomicUsize::new(0);

/// A family of calls on one thread: robot A, a sibling B that shares part of A's description (same effective
/// angles, hence the same pose when the geometry is shared), then A again, exactly as the first time.
/// Every call is judged on its own: an answer is a function of the robot and the arguments, not of the calls before.
pub fn family(sc: &Value, r: &mut StdRng) -> Vec<Value> {
    let p = make_params(sc, r);
    let r0 = r.clone();
    let (a, shared) = instance_p(sc, p, None, r);
    let pb = robots::sibling(&p, r);
    let (mut b, _) = instance_p(sc, pb, Some(&shared), r);
    let (mut a2, _) = instance_p(sc, p, None, &mut r0.clone());
    let mut a = a;
    a["member"] = json!("first");
    b["member"] = json!("sibling");
    a2["member"] = json!("again");
    // the same robot with other limits (none instead of some, wide ones instead of none), asked the same pose right
    // after: what a limited solver answered says nothing about what an unlimited one has to answer
    let mut sc3 = sc.clone();
    sc3["limits"] = if sc["limits"] == "none" { json!("wide") } else { json!("none") };
    let (mut a3, _) = instance_p(&sc3, p, None, &mut r0.clone());
    a3["member"] = json!("relimited");
    a3["limits_class"] = sc3["limits"].clone();
    vec![a, b, a2, a3]
}

/// What a sibling takes over from the first robot of a family.
pub struct Shared {
    pub p: Parameters,
    pub e: [f64; 6],
    pub layers: Vec<LayerF>,
    pub want: Iso,
}

/// The event of one call of the scenario's entry point on robot `p`; `shared`: effective angles to use instead of
/// drawing them (pose classes that are tied to the geometry draw their own) and, for every second sibling, the
/// wrapper stack; a sibling with the same geometry and stack is asked the very same (bitwise) pose.
pub fn instance_p(sc: &Value, p: Parameters, shared: Option<&Shared>, r: &mut StdRng) -> (Value, Shared) {
    let truth = shared.map(|s| s.e);
    let entry = sc["entry"].as_str().unwrap();
    let dof = sc["dof"].as_i64().unwrap() as i8;
    let pose_class = sc["pose"].as_str().unwrap();
    let prev_class = sc["prev"].as_str().unwrap();
    let five_entry = entry.contains("5dof");
    let five = five_entry || dof == 5;
    let mut p = p;
    let e = match truth {
        Some(e) if !matches!(pose_class, "stretched" | "barely-out" | "on-j1-axis" | "near-j1-axis") => {
            let q = from_effective(&p, &e);
            if matches!(pose_class, "generic" | "unreachable" | "nan" | "inf") && !nonsingular(&margins(&p, &q)) { truth_for(pose_class, &mut p, r) } else { e }
        }
        _ => truth_for(pose_class, &mut p, r),
    };
    // one generic configuration in twelve has some of J1, J4, J6 within 1e-7 .. 1.5e-4 rad of the +-180 degree seam of the
    // normalised range (the previous vector, if any, then has those joints at zero: the home position)
    let mut e = e;
    let mut seam: Vec<usize> = Vec::new();
    if shared.is_none() && pose_class == "generic" && r.gen_bool(0.085) {
        for j in [0usize, 3, 5] {
            if r.gen_bool(0.6) {
                let target = (PI - 10f64.powf(r.gen_range(-7.0..-3.8))) * if r.gen_bool(0.5) { 1.0 } else { -1.0 };
                let sj = if p.sign_corrections[j] == 0 { 1.0 } else { p.sign_corrections[j] as f64 };
                e[j] = target * sj - p.offsets[j];
                seam.push(j);
            }
        }
    }
    let mut q = from_effective(&p, &e);
    // a 5-DOF robot's plain inverse answers with J6 = 0: every second pose is that of a configuration with J6 = 0, the
    // others are rolled about the tool axis by any J6 (tool point and axis are what counts)
    if dof == 5 && !five_entry && entry == "inverse" && r.gen_bool(0.5) { q[5] = 0.0; }
    let own_layers = stack_for(sc["stack"].as_str().unwrap(), r);
    let same_stack = shared.is_some() && r.gen_bool(0.5);
    let layers = if same_stack { shared.unwrap().layers.clone() } else { own_layers };
    let leaf_q = q;
    let pgram = layers.iter().any(|l| matches!(l, LayerF::Pgram { .. }));
    let q = outer_joints(&layers, &leaf_q);
    let w16 = sc["w16"].as_i64().unwrap();
    let limits = limits_for(sc["limits"].as_str().unwrap(), &q, w16 as f64 / 16.0, r);
    let mut robot = Robot::new(p, layers, limits);
    let m = margins(&p, &leaf_q);
    // pose
    let mut want = robot.ofk(&q);
    if let Some(sh) = shared {
        let g = |x: &Parameters| [x.a1, x.a2, x.b, x.c1, x.c2, x.c3, x.c4];
        if same_stack && g(&sh.p) == g(&p) && sh.e == e && want.dpos(&sh.want) < 1e-9 && want.drot(&sh.want) < 1e-9 { want = sh.want; }
    }
    let own_want = want;
    let mut pose_ok = true;
    let mut reach = match pose_class { "stretched" | "on-j1-axis" | "barely-out" => "edge", _ => "yes" };
    match pose_class {
        "unreachable" => {
            // (three times the sum of all lengths, whatever their signs and their unit, and then some)
            let all = p.a1.abs() + p.a2.abs() + p.b.abs() + p.c1.abs() + p.c2.abs() + p.c3.abs() + p.c4.abs();
            let far = 3.0 * all + 2.0 * all.max(1.0);
            // shift the LEAF pose far away: express through the stack by moving the flange
            let mut leaf = oracle::fk(&p, &leaf_q);
            let dir = [r.gen_range(-1.0..1.0), r.gen_range(-1.0..1.0), r.gen_range(0.2..1.0f64)];
            let n = oracle::norm(&dir);
            leaf.t = oracle::add(&leaf.t, &oracle::scale(far / n, &dir));
            let mut cur = leaf;
            for l in robot.layers.iter().rev() {
                match l { LayerF::Tool(i) | LayerF::Frame(i) => cur = cur.mul(i), LayerF::Base(i) => cur = i.mul(&cur), _ => {} }
            }
            want = cur;
            reach = "no";
        }
        "barely-out" => {
            // the fully stretched arm, and the pose moved 0.3 .. 1.5 um further out along the stretched arm (from the
            // J2 axis to the wrist centre): just out of reach - nothing may come back that is further than 1 um away
            let chain = oracle::chain(&p, &leaf_q);
            let dir = oracle::sub(&chain[4].t, &chain[1].t);
            let n = oracle::norm(&dir).max(1e-9);
            let mut leaf = oracle::fk(&p, &leaf_q);
            leaf.t = oracle::add(&leaf.t, &oracle::scale(r.gen_range(0.3e-6..1.5e-6) / n, &dir));
            let mut cur = leaf;
            for l in robot.layers.iter().rev() {
                match l { LayerF::Tool(i) | LayerF::Frame(i) => cur = cur.mul(i), LayerF::Base(i) => cur = i.mul(&cur), _ => {} }
            }
            want = cur;
        }
        "nan" => { want.t[r.gen_range(0..3)] = f64::NAN; pose_ok = false; }
        "inf" => { want.t[r.gen_range(0..3)] = if r.gen_bool(0.5) { f64::INFINITY } else { f64::NEG_INFINITY }; pose_ok = false; }
        _ => {}
    }
    let pose = if pose_ok { want.to_na() } else {
        let mut ps = Iso { r: want.r, t: [0.0; 3] }.to_na();
        ps.translation.vector = nalgebra::Vector3::new(want.t[0], want.t[1], want.t[2]);
        ps
    };
    // previous
    let mut realised = false;
    let mut prev_in_range = true;
    let prev: Joints = match prev_class {
        "near" => if r.gen_bool(0.5) { realised = pose_class != "unreachable" && pose_ok; q } else { std::array::from_fn(|i| q[i] + r.gen_range(-0.05..0.05)) },
        "far" => {
            let big = r.gen_bool(0.3);
            let v: Joints = std::array::from_fn(|i| {
                let k = if big { r.gen_range(-3..=3) } else { let k: i32 = r.gen_range(-1..=1); if (q[i] + k as f64 * 2.0 * PI).abs() <= 2.0 * PI { k } else { 0 } };
                q[i] + k as f64 * 2.0 * PI
            });
            prev_in_range = v.iter().all(|x| x.abs() <= 2.0 * PI);
            realised = pose_class != "unreachable" && pose_ok;
            v
        }
        "centered" => CONSTRAINT_CENTERED,
        // a previous vector that is itself outside the limits in J1/J2 (the answers need not be)
        "off-limits" => std::array::from_fn(|i| if i < 2 { q[i] + if r.gen_bool(0.5) { 0.6 } else { -0.6 } } else { q[i] + r.gen_range(-0.05..0.05) }),
        _ => q,
    };
    // far beyond any sensible range (soundness only): whole turns of the order of 1e9..1e10 rad
    // (not at wrist-singular poses: the library brings the J4 + J6 sum into range by repeated subtraction there, which
    //  takes 1e9 iterations - slow, not wrong)
    // (the class is switched off for the rest of the run by the first such call that takes more than half a second:
    //  range reduction by repeated subtraction is slow, not wrong, and would stall the recording)
    let prev: Joints = if prev_class == "far" && r.gen_bool(0.12) && !matches!(pose_class, "j5-zero" | "j5-pi" | "j5-tiny") && !NO_HUGE.load(std::sync::atomic::Ordering::Relaxed) {
        prev_in_range = false;
        std::array::from_fn(|i| q[i] + (r.gen_range(1.0e8..2.0e9f64)).round() * 2.0 * PI * if r.gen_bool(0.5) { 1.0 } else { -1.0 })
    } else { prev };
    let mut j6 = if r.gen_bool(0.5) { q[5] } else { r.gen_range(-3.0..3.0) };
    let mut prev = prev;
    let mut realised = realised;
    // one "near" previous in five is where the robot stands after re-orienting the tool in place: a solution (the
    // unlimited twin's) of a pose with the same tool point and another orientation
    if prev_class == "near" && pose_ok && matches!(pose_class, "generic" | "near-j1-axis") && r.gen_bool(0.2) {
        let turn = Iso { r: oracle::mat_mul(&oracle::rot('x', r.gen_range(-0.4..0.4)), &oracle::rot('y', r.gen_range(-0.4..0.4))), t: [0.0; 3] };
        let mut elsewhere = Iso { r: oracle::mat_mul(&want.r, &turn.r), t: want.t };
        elsewhere.t = want.t;
        if let Some(a) = call(robot.free.as_ref(), "inverse_continuing", &elsewhere.to_na(), &q, 0.0).and_then(|a| a.first().copied()) {
            prev = a;
            realised = false;
        }
    }
    if !seam.is_empty() && !pgram && prev_class != "centered" && prev.iter().all(|x| x.abs() < 100.0) {
        for &j in &seam { prev[j] = 0.0; }
        realised = false;
    }
    // a non-finite J6 request must never come back: the answer is empty or finite
    let nonfinite_j6 = five && pose_class == "generic" && r.gen_bool(0.08);
    if nonfinite_j6 {
        let bad = [f64::NAN, f64::INFINITY, f64::NEG_INFINITY][r.gen_range(0..3)];
        j6 = bad;
        if prev_class != "centered" { prev[5] = bad; prev_in_range = false; }
    }
    // one stack in three had its outermost wrapper re-configured in place after it answered the same query
    let reseated = r.gen_bool(0.34);
    if reseated { robot.reseat(&pose, &prev, j6, &q, r); }
    // a previous vector with a NaN in J4 or J6 (6-DOF continuation at the poses where the solver re-distributes
    // J4 / J6 relative to previous): whatever comes back has to be finite
    let mut realised = realised;
    let mut prev_in_range = prev_in_range;
    if !five && entry == "inverse_continuing" && prev_class != "centered" && matches!(pose_class, "j5-zero" | "j5-pi" | "j5-tiny") && r.gen_bool(0.15) {
        // (NaN only: with an infinite value the solver's own range reduction by repeated subtraction never ends)
        prev[if r.gen_bool(0.5) { 3 } else { 5 }] = f64::NAN;
        prev_in_range = false;
        realised = false;
    }
    // calls
    if std::env::var("VERIF_TRACE_CALLS").is_ok() { eprintln!("call sc={} {} {} prev={:?} j6={} params={}", sc["id"], entry, pose_class, prev, j6, robots::params_json(&p)); }
    // (three calls in ten are the second of two identical calls of the same object, one right after the other)
    let twice = r.gen_bool(0.3);
    let is_huge = prev.iter().any(|x| x.is_finite() && x.abs() > 1.0e6);
    let ans = if is_huge {
        // a call with a previous vector of the order of 1e9 turns is made on a thread of its own and given up after two
        // seconds (the event is then recorded as abandoned and not judged)
        let (tx, rx) = std::sync::mpsc::channel();
        let (k, entry_s) = (robot.kin.clone(), entry.to_string());
        let started = std::time::Instant::now();
        std::thread::spawn(move || { let _ = tx.send(call(k.as_ref(), &entry_s, &pose, &prev, j6)); });
        let got = rx.recv_timeout(std::time::Duration::from_secs(2));
        if started.elapsed().as_millis() > 500 { NO_HUGE.store(true, std::sync::atomic::Ordering::Relaxed); }
        match got {
            Ok(a) => a,
            Err(_) => {
                let mut ev = json!({"ev": "ik", "member": "single", "key": "", "sc": sc["id"], "entry": entry, "dof": dof, "geom": sc["geom"], "stack": sc["stack"], "pose_class": pose_class,
                    "limits_class": sc["limits"], "prev_class": prev_class, "signs": sc["signs"], "offsets": sc["offsets"], "outcome": "abandoned"});
                ev["params"] = robots::params_json(&p);
                return (ev, Shared { p, e, layers: robot.layers.clone(), want: own_want });
            }
        }
    } else {
        let k = robot.kin.clone();
        in_pool(POOL.load(std::sync::atomic::Ordering::Relaxed), move || { if twice { let _ = call(k.as_ref(), entry, &pose, &prev, j6); } call(k.as_ref(), entry, &pose, &prev, j6) })
    };
    // identity of the call: robot description, wrapper stack, limits and every argument, bit for bit
    let key = {
        use std::hash::{Hash, Hasher};
        let mut h = std::collections::hash_map::DefaultHasher::new();
        format!("{}|{:?}|{:?}|{}", robots::params_json(&p), robot.layers, robot.limits, entry).hash(&mut h);
        for x in pose.translation.vector.iter().chain(pose.rotation.coords.iter()).chain(prev.iter()).chain(std::iter::once(&j6)) { x.to_bits().hash(&mut h); }
        format!("{:016x}", h.finish())
    };
    let base = json!({"ev": "ik", "member": "single", "key": key, "sc": sc["id"], "entry": entry, "dof": dof, "geom": sc["geom"], "stack": sc["stack"], "pose_class": pose_class,
        "limits_class": sc["limits"], "prev_class": prev_class, "signs": sc["signs"], "offsets": sc["offsets"]});
    let mut ev = base.as_object().unwrap().clone();
    let Some(ans) = ans else {
        ev.insert("outcome".into(), json!("panic"));
        ev.insert("params".into(), robots::params_json(&p));
        return (Value::Object(ev), Shared { p, e, layers: robot.layers.clone(), want: own_want });
    };
    // (a pose has at most eight solution branches: of a list that has grown beyond sixteen entries the first sixteen
    //  are judged, and its length is recorded)
    let n_answers = ans.len();
    let ans: Solutions = ans.into_iter().take(16).collect();
    ev.insert("n_answers".into(), json!(n_answers));
    let centered = prev_class == "centered";
    let caller_j6 = if entry == "inverse_5dof" { j6 } else if entry == "inverse" || centered { 0.0 } else { prev[5] };
    let j6_equal: Vec<bool> = if five && !nonfinite_j6 {
        ans.iter().map(|a| a[5].to_bits() == caller_j6.to_bits() || (a[5] == caller_j6) ||
            (centered && { let d = (a[5] - caller_j6).rem_euclid(2.0 * PI); d.min(2.0 * PI - d) < 1e-12 })).collect()
    } else { vec![] };
    let mut rep_prad = 0i64;
    // (neither the plain nor the unlimited counterpart is asked for when previous is of the order of 1e9 turns: no
    //  clause that uses them speaks about such calls)
    let plain: Vec<Vec<i64>> = if entry.contains("continuing") && !is_huge {
        // (5-DOF: the plain counterpart of a continuation call is the 5-DOF solve with the same J6 = previous J6;
        //  a robot declared 5-DOF answers plain `inverse` with J6 = 0, which the limits may treat differently)
        // (the sentinel stands for "J6 = 0" on the 5-DOF paths: the literal value, not whatever the constant holds)
        let pl = if five { call(robot.kin.as_ref(), "inverse_5dof", &pose, &prev, if centered { 0.0 } else { prev[5] }) } else { call(robot.kin.as_ref(), "inverse", &pose, &prev, j6) };
        let mut pl = pl.unwrap_or_default();
        pl.truncate(16);
        // every answer that is (to 1e-5 rad, modulo whole turns) a plain solution: how far it is from being that
        // solution shifted by whole turns exactly, in 1e-12 rad
        rep_prad = rep_dev(&ans, &pl, if five { 5 } else { 6 });
        pl.iter().map(au6).collect()
    } else { vec![] };
    // "the same query without limits": the sentinel means "relative to the constraint centres", which the
    // twin without limits does not know, so it is given the centres explicitly
    let free: Vec<Vec<i64>> = if robot.limits.is_some() && !is_huge {
        let prev_free = if centered { let mut c = centres(&robot); if five_entry || dof == 5 { c[5] = 0.0; } c } else { prev };
        call(robot.free.as_ref(), entry, &pose, &prev_free, j6).unwrap_or_default().iter().take(16).map(au6).collect()
    } else { vec![] };
    let known = pose_ok && pose_class != "unreachable" && pose_class != "barely-out";
    let resolve: Vec<usize> = if entry == "inverse" && dof == 6 && robot.limits.is_none() && known && nonsingular(&m) {
        ans.iter().map(|a| robot.kin.inverse(&robot.ofk(a).to_na()).len()).collect()
    } else { vec![] };
    let c = centres(&robot);
    let (lf, lt) = match &robot.limits { Some((f, t, _)) => (au6(f), au6(t)), None => (vec![0; 6], vec![0; 6]) };
    ev.insert("outcome".into(), json!("ok"));
    ev.insert("reseated".into(), json!(reseated));
    ev.insert("pose_ok".into(), json!(pose_ok));
    ev.insert("reach".into(), json!(reach));
    ev.insert("prev".into(), if centered { json!([]) } else { json!(au6(&prev)) });
    ev.insert("prev_in_range".into(), json!(prev_in_range));
    ev.insert("j6_equal".into(), json!(j6_equal));
    ev.insert("w16".into(), json!(if robot.limits.is_some() { w16 } else { 0 }));
    ev.insert("centres".into(), json!(au6(&c)));
    ev.insert("lim".into(), json!(robot.limits.is_some()));
    ev.insert("pgram".into(), json!(pgram));
    ev.insert("j6_finite".into(), json!(!nonfinite_j6));
    ev.insert("huge".into(), json!(prev.iter().any(|x| x.is_finite() && x.abs() > 1.0e6)));
    ev.insert("from".into(), json!(lf));
    ev.insert("to".into(), json!(lt));
    ev.insert("answers".into(), json!(ans.iter().map(|a| answer_facts(&robot, &want, a)).collect::<Vec<_>>()));
    ev.insert("plain".into(), json!(plain));
    ev.insert("rep_prad".into(), json!(rep_prad));
    ev.insert("free".into(), json!(free));
    ev.insert("resolve".into(), json!(resolve));
    // the wrapper stack's own forward kinematics and link poses at the truth configuration against the model
    // (asked twice: first at the joint vector at which the preceding robot of this thread was asked last, then at this
    //  robot's own - what a stack reports for a joint vector is its own, whoever was asked about that vector before)
    let q_before = LAST_FWD_Q.with(|c| c.get());
    LAST_FWD_Q.with(|c| c.set(q));
    let mut fwd_n = 0i64;
    for qq in [q_before, q] {
        if !qq.iter().all(|x| x.is_finite()) { continue; }
        let one = match guarded(|| (robot.kin.forward(&qq), robot.kin.forward_with_joint_poses(&qq))) {
            Some((f, links)) => {
                let fi = Iso::from_na(&f);
                let w = robot.ofk(&qq);
                let mut e = fi.dpos(&w).max(fi.drot(&w));
                // link poses: bases in front, the (de-coupled) chain behind; tools do not move links, frames move the last one
                let chain = oracle::chain(&robot.p, &robot.leaf_joints(&qq));
                let mut base = Iso::identity();
                for l in robot.layers.iter().rev() { if let LayerF::Base(b) = l { base = b.mul(&base); } }
                let has_frame = robot.layers.iter().any(|l| matches!(l, LayerF::Frame(_)));
                for i in 0..(if has_frame { 5 } else { 6 }) {
                    let li = Iso::from_na(&links[i]);
                    let wi = base.mul(&chain[i]);
                    e = e.max(li.dpos(&wi)).max(li.drot(&wi));
                }
                nano(e)
            }
            None => 2_000_000_000,
        };
        fwd_n = fwd_n.max(one);
    }
    ev.insert("fwd_n".into(), json!(fwd_n));
    ev.insert("truth".into(), json!({"known": known, "q": au6(&q), "nonsingular": nonsingular(&m), "wrist_ok": m.wrist > 0.01, "realised_by_prev": realised}));
    ev.insert("params".into(), robots::params_json(&p));
    // the wrist twin negates the GEOMETRIC J5: in robot coordinates -q5 + 2*sign5*offset5
    ev.insert("twin_shift5".into(), json!(rad2au(norm_pi(2.0 * p.sign_corrections[4] as f64 * p.offsets[4]))));
    // the limits a wrapper stack reports are those of the robot it wraps
    let reported = guarded(|| match (robot.kin.constraints(), &robot.limits) {
        (None, None) => true,
        (Some(c), Some((f, t, w))) => {
            // (to 1e-9 rad: limits written in degrees come back an ulp away)
            let x = Constraints::new(*f, *t, *w);
            let same = |a: &Joints, b: &Joints| (0..6).all(|i| a[i] == b[i] || (a[i] - b[i]).abs() <= 1e-9);
            same(&c.from, &x.from) && same(&c.to, &x.to) && same(&c.centers, &x.centers) && same(&c.tolerances, &x.tolerances) && c.sorting_weight == x.sorting_weight
        }
        _ => false,
    }).unwrap_or(false);
    ev.insert("lim_reported".into(), json!(reported));
    // the originating vector with the caller's J6, inside the limits and 1e-3 rad clear of the arc ends (own arithmetic)
    let truth5_in = match &robot.limits {
        None => true,
        Some((f, t, _)) => (0..6).all(|j| {
            let x = if j == 5 { caller_j6 } else { q[j] };
            let two_pi = 2.0 * PI;
            let len = if f[j] == t[j] { two_pi } else if f[j] < t[j] { (t[j] - f[j]).min(two_pi) } else { (t[j] - f[j]).rem_euclid(two_pi) };
            let d = (x - f[j]).rem_euclid(two_pi);
            x.is_finite() && (len >= two_pi || (d >= 1e-3 && d <= len - 1e-3))
        }),
    };
    ev.insert("truth5_in_limits".into(), json!(truth5_in));
    (Value::Object(ev), Shared { p, e, layers: robot.layers.clone(), want: own_want })
}

const OFFS: [&str; 3] = ["zero", "quarter", "random"];
const W16S: [i64; 6] = [0, 4, 8, 12, 16, 5];
const STACKS: [&str; 11] = ["bare", "tool", "base", "base+tool", "frame", "tool>base", "pgram", "tool>pgram", "pgram>pgram", "pgram>tool", "pgram>base+tool"];
const STACKS5: [&str; 9] = ["bare", "axial-tool", "base", "base+axial-tool", "axial-frame", "base+axial-frame", "pgram5", "pgram5>base", "pgram5>base+axial-tool"];

fn rotate(sc: &Value, i: usize) -> Value {
    let mut s = sc.clone();
    if i == 0 { return s; }
    let shift = |list: &[&str], cur: &Value, by: usize| -> Value {
        let at = list.iter().position(|x| Some(*x) == cur.as_str()).unwrap_or(0);
        json!(list[(at + by) % list.len()])
    };
    s["geom"] = shift(&robots::GEOMETRY_CLASSES, &sc["geom"], i);
    s["offsets"] = shift(&OFFS, &sc["offsets"], i / 2);
    s["signs"] = json!((sc["signs"].as_u64().unwrap() as usize + 29 * i) % 64);
    let five = sc["entry"].as_str().unwrap().contains("5dof") || sc["dof"] == 5;
    s["stack"] = if five { shift(&STACKS5, &sc["stack"], i / 3) } else { shift(&STACKS, &sc["stack"], i / 3) };
    if sc["limits"] != "none" {
        let at = W16S.iter().position(|x| Some(*x) == sc["w16"].as_i64()).unwrap_or(0);
        s["w16"] = json!(W16S[(at + i / 2) % 6]);
    }
    s
}

/// record ik <scenarios.ndjson> <out> : k instances of every scenario
pub fn record(scenarios: &str, output: &str) {
    quiet_panics();
    let scs = read_ndjson(scenarios);
    let mut out = Out::create(output);
    let k = std::env::var("VERIF_INSTANCES").ok().and_then(|s| s.parse().ok()).unwrap_or(if thorough() { 12 } else { 3 });
    let focus = std::env::var("VERIF_FOCUS").unwrap_or_default();
    'scenarios: for sc0 in &scs {
        let id = sc0["id"].as_u64().unwrap();
        for i in 0..k {
            if FLOOD.load(std::sync::atomic::Ordering::Relaxed) { break 'scenarios; }
            // the dimensions that Gen_Scenarios spreads over the core product by strides (geometry class, sign pattern,
            // offset class, weight, wrapper stack) are rotated further from instance to instance, so that every core
            // scenario meets every geometry class within nine instances
            let sc = &rotate(sc0, i);
            // focus filters (a check asks only for the scenarios its clauses can speak about)
            let keep = match focus.as_str() {
                "C02" => (sc["entry"] == "inverse" && sc["dof"] == 6) || (sc["limits"] == "none" && sc["pose"] == "generic" && !sc["stack"].as_str().unwrap().contains("pgram")),
                "C04" => sc["entry"].as_str().unwrap().contains("continuing"),
                "C06" => sc["entry"].as_str().unwrap().contains("5dof") || sc["dof"] == 5,
                "C08" => sc["limits"] != "none",
                "C16" => sc["stack"].as_str().unwrap().contains("pgram"),
                "C09" => sc["stack"] != "bare" && !sc["stack"].as_str().unwrap().contains("pgram"),
                _ => true,
            };
            if !keep { continue; }
            let mut r = rng(1_000_003 * id + i as u64);
            // every third instance of a scenario is a family of related robots called in turn
            if i % 3 == 2 { for ev in family(sc, &mut r) { out.put(ev); } } else { out.put(instance(sc, &mut r)); }
        }
    }
    out.finish();
}

/// C04 histories: follow dense joint-space trajectories with inverse_continuing.
pub fn record_follow(output: &str) {
    quiet_panics();
    let mut out = Out::create(output);
    let mut r = rng(404);
    let n_traj = if thorough() { 150 } else { 24 };
    let steps = if thorough() { 400 } else { 200 };
    let mut made = 0;
    let mut attempts = 0;
    while made < n_traj && attempts < n_traj * 200 {
        attempts += 1;
        let class = robots::GEOMETRY_CLASSES[attempts % robots::GEOMETRY_CLASSES.len()];
        let mut p = robots::geometry(class, &mut r);
        p = robots::convention(p, r.gen_range(0..64), ["zero", "quarter", "random"][attempts % 3], &mut r);
        let stack_class = ["bare", "tool", "base+tool", "frame"][attempts % 4];
        let layers = stack_for(stack_class, &mut r);
        let robot = Robot::new(p, layers, None);
        // trajectory in effective angles: centre + amplitude * sin(omega t + phase)
        let c: [f64; 6] = std::array::from_fn(|j| if j == 4 { r.gen_range(0.9..2.2) } else { r.gen_range(-2.0..2.0) });
        let a: [f64; 6] = std::array::from_fn(|j| if j == 4 { r.gen_range(0.1..0.5) } else { r.gen_range(0.1..0.9) });
        let w: [f64; 6] = std::array::from_fn(|_| r.gen_range(0.5..2.0));
        let ph: [f64; 6] = std::array::from_fn(|_| r.gen_range(0.0..6.28));
        let at = |t: f64| -> Joints {
            let e: [f64; 6] = std::array::from_fn(|j| c[j] + a[j] * (w[j] * t + ph[j]).sin());
            std::array::from_fn(|i| (e[i] + p.offsets[i]) * p.sign_corrections[i] as f64)
        };
        let dt = 0.006; // <= 0.9 * 2.0 * 0.006 rad = 0.6 degree per step and joint
        let pts: Vec<Joints> = (0..steps).map(|k| at(k as f64 * dt)).collect();
        if pts.iter().any(|q| { let m = margins(&p, q); !(m.wrist > 0.25 && m.elbow > 0.25 && m.shoulder > 0.12) }) { continue; }
        // keep the whole trajectory inside +-2 pi (documented range of `previous`)
        if pts.iter().any(|q| q.iter().any(|x| x.abs() > 2.0 * PI - 0.1)) { continue; }
        made += 1;
        out.put(json!({"ev": "reset"}));
        let mut prev = pts[0];
        for (k, q) in pts.iter().enumerate() {
            let want = robot.ofk(q);
            let ans = call(robot.kin.as_ref(), "inverse_continuing", &want.to_na(), &prev, 0.0);
            let mut ev = json!({"ev": "follow", "k": k + 1, "entry": "inverse_continuing", "dof": 6, "geom": class, "stack": stack_class,
                "pose_ok": true, "reach": "yes", "pgram": false, "j6_finite": true, "huge": false, "prev": au6(&prev), "prev_in_range": true, "j6_equal": [], "w16": 0, "centres": [0,0,0,0,0,0],
                "lim": false, "from": [0,0,0,0,0,0], "to": [0,0,0,0,0,0], "plain": [], "rep_prad": 0, "n_answers": 0, "free": [], "resolve": [], "twin_shift5": 0, "fwd_n": 0, "lim_reported": true, "reseated": false, "truth5_in_limits": true, "member": "single", "key": "",
                "truth": {"known": true, "q": au6(q), "nonsingular": true, "wrist_ok": true, "realised_by_prev": false}});
            match ans {
                None => { ev["outcome"] = json!("panic"); ev["answers"] = json!([]); out.put(ev); break; }
                Some(ans) => {
                    ev["outcome"] = json!("ok");
                    ev["answers"] = json!(ans.iter().map(|a| answer_facts(&robot, &want, a)).collect::<Vec<_>>());
                    ev["rep_prad"] = json!(rep_dev(&ans, &call(robot.kin.as_ref(), "inverse", &want.to_na(), &prev, 0.0).unwrap_or_default(), 6));
                    let lost = ans.is_empty();
                    if !lost { prev = ans[0]; }
                    out.put(ev);
                    if lost { break; }
                }
            }
        }
    }
    out.finish();
}

/// debug ik <params json> <q in AU json> [<previous in AU json>]: the bare robot's answers for the pose of q
pub fn debug_ik(params: &str, q: &str, prev: Option<&str>) {
    let v: Value = serde_json::from_str(params).unwrap();
    let g = |k: &str| v[k].as_f64().unwrap();
    let mut p = robots::params(g("a1"), g("a2"), g("b"), g("c1"), g("c2"), g("c3"), g("c4"));
    for i in 0..6 { p.offsets[i] = v["offsets"][i].as_f64().unwrap(); p.sign_corrections[i] = v["signs"][i].as_i64().unwrap() as i8; }
    p.dof = v["dof"].as_i64().unwrap_or(6) as i8;
    let au = |s: &str| -> Joints { let a: Vec<i64> = serde_json::from_str(s).unwrap(); std::array::from_fn(|i| au2rad(a[i])) };
    let q = au(q);
    let layers: Vec<LayerF> = match std::env::var("DEBUG_TOOL") {
        Ok(t) => { let c: Vec<f64> = t.split(',').map(|x| x.parse().unwrap()).collect();
                   vec![LayerF::Tool(Iso { r: oracle::rot('x', c[3]), t: [c[0], c[1], c[2]] })] }
        Err(_) => match std::env::var("DEBUG_TOOL12") {
            Ok(t) => { let c: Vec<f64> = t.split(',').map(|x| x.trim().parse().unwrap()).collect();
                       vec![LayerF::Tool(Iso { r: [[c[0], c[1], c[2]], [c[3], c[4], c[5]], [c[6], c[7], c[8]]], t: [c[9], c[10], c[11]] })] }
            Err(_) => vec![],
        },
    };
    let robot = Robot::new(p, layers, None);
    let k = robot.kin.clone();
    let pose = robot.ofk(&q).to_na();
    println!("oracle vs forward: {:?}", Iso::from_na(&k.forward(&q)).dpos(&robot.ofk(&q)));
    println!("inverse:");
    for a in k.inverse(&pose) { println!("  {:?}", au6(&a)); }
    if let Some(pv) = prev {
        let pv = au(pv);
        println!("inverse_continuing:");
        for a in k.inverse_continuing(&pose, &pv) { println!("  {:?}", au6(&a)); }
    }
}
