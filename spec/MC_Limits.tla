----------------------------- MODULE MC_Limits -----------------------------
(***************************************************************************)
(* Bounded exhaustive model of the joint-limit arithmetic.                 *)
(* Constants: NN units per turn, RR range of from/to/angle in units        *)
(* (quick: NN=24 (15 deg), RR=48 (+-4pi); thorough: NN=72 (5 deg), RR=144) *)
(* One state per (from, to); invariants quantify over every angle.         *)
(***************************************************************************)
EXTENDS Limits, TLC

CONSTANTS NN, RR

VARIABLES f, t

Init == f \in -RR..RR /\ t \in -RR..RR
Next == UNCHANGED <<f, t>>
Spec == Init /\ [][Next]_<<f, t>>

Angles == -RR..RR

\* C07: the code's centre/tolerance test is arc membership.
ImplIsArc ==
  Ambiguous(f, t, NN) \/ \A a \in Angles : ImplAccept(f, t, a, NN) = OnArc(f, t, a, NN)

\* C07: invariance under whole turns added to the angle or to both limits.
TurnInvariant ==
  \A a \in Angles :
     /\ (a + NN \in Angles => OnArc(f, t, a + NN, NN) = OnArc(f, t, a, NN))
     /\ ((f + NN \in Angles /\ t + NN \in Angles) =>
            OnArc(f + NN, t + NN, a, NN) = OnArc(f, t, a, NN))

\* C07: a span of a full turn or more accepts everything; from == to likewise.
FullTurn == ((f < t /\ t - f >= NN) \/ f = t) => \A a \in Angles : OnArc(f, t, a, NN)

\* C07: the reported centre is accepted (when it is a lattice point).
CentreAccepted ==
  (f # t /\ Centre2(f, t, NN) % 2 = 0) => OnArc(f, t, Centre2(f, t, NN) \div 2, NN)

\* C18: every value the (specified) sampler can return is on the arc.
SampleOnArc == Ambiguous(f, t, NN) \/ \A a \in SampleSet(f, t, NN) : OnArc(f, t, a, NN)

\* C18: where the two-segment legacy algorithm leaves the arc (reported, not required).
LegacyOk ==
  Ambiguous(f, t, NN) \/ \A s \in 0..(LegacyLen(f, t, NN) - 1) : OnArc(f, t, LegacySample(f, t, s, NN), NN)
=============================================================================
