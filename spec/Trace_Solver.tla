---------------------------- MODULE Trace_Solver ----------------------------
(***************************************************************************)
(* Trace specification for the inverse kinematics entry points (bindings   *)
(* B2/B3 of C01, C02, C04, C06, C08, and the inverse clauses of C09, C16). *)
(* One event = one public call observed at its return; the contract of     *)
(* module Solver is evaluated on every event.  `follow' events form        *)
(* histories: each call's previous must be the preceding call's first      *)
(* answer (state variable `last') and the answer must track the ground     *)
(* truth trajectory, so a branch switch anywhere along a history is found. *)
(***************************************************************************)
EXTENDS Solver, TLC, Json, IOUtils

Rec == ndJsonDeserialize(IOEnv.TRACE)

VARIABLES l, last,   \* position in the trace; first answer of the preceding call of the history
          fam         \* the first call of the family under way: its identity (robot, stack, limits, arguments) and answers
vars == <<l, last, fam>>

STEP_AU == 30000     \* 3 degrees: bound on the distance of a followed answer from the trajectory point

JudgeFollow(e) ==
  (IF e.k > 1 /\ last # e.prev THEN {"harness:history-broken"} ELSE {})
  \cup (IF e.answers = <<>> THEN {"C04:trajectory-lost"}
        ELSE IF \E j \in 1..6 : Abs(e.answers[1].q[j] - e.truth.q[j]) > STEP_AU THEN {"C04:branch-switch"} ELSE {})
  \cup Contract(e)

Judge(e) ==
  \* ("abandoned": a call with a previous vector of ~1e9 turns that did not return within two seconds - not judged)
  CASE e.ev = "ik"     -> IF e.outcome = "panic" THEN {"C01:panic"} ELSE IF e.outcome = "abandoned" THEN {} ELSE Contract(e)
    [] e.ev = "follow" -> IF e.outcome = "panic" THEN {"C01:panic"} ELSE JudgeFollow(e)
    [] e.ev = "reset"  -> {}
    [] OTHER           -> {"unknown-event"}

\* A call is a function of the object and the arguments.  Families repeat their first call (member "again", same
\* identity key) after a related robot was asked; answers that differ are counted (register 2) and shown in the
\* evidence - a divergence, not a violation: each call is judged against the contract on its own.
Repeats(e) == e.ev = "ik" /\ e.outcome = "ok" /\ e.member = "again" /\ fam.key = e.key /\ fam.qs # Qs(e)

Init == l = 1 /\ last = <<>> /\ fam = [key |-> "", qs |-> <<>>] /\ TLCSet(2, 0)
Next ==
  /\ l <= Len(Rec)
  /\ LET e == Rec[l]  bad == Judge(e) IN
       /\ (bad = {} \/ PrintT(ToJson([tag |-> "viol", l |-> l, clause |-> bad])))
       /\ last' = IF e.ev = "follow" /\ e.outcome = "ok" /\ e.answers # <<>> THEN e.answers[1].q
                  ELSE IF e.ev = "reset" THEN <<>> ELSE last
       /\ fam' = IF e.ev = "ik" /\ e.outcome = "ok" /\ e.member = "first" THEN [key |-> e.key, qs |-> Qs(e)] ELSE fam
       /\ (IF Repeats(e) THEN TLCSet(2, TLCGet(2) + 1) ELSE TRUE)
  /\ TLCSet(1, l)
  /\ l' = l + 1
Spec == Init /\ [][Next]_vars
Post == PrintT(ToJson([tag |-> "done", n |-> IF Len(Rec) = 0 THEN 0 ELSE TLCGet(1), repeats_differ |-> TLCGet(2)]))
=============================================================================
