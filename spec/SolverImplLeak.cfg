SPECIFICATION Spec
CONSTANTS NC = 1
INVARIANT NoShiftedLeak
CHECK_DEADLOCK FALSE
