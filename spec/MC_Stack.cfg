SPECIFICATION Spec
CONSTANTS MaxDepth = 2
          Kinds = {"Tool", "Frame", "Base"}
          Isos = {2, 3}
          Leafs = {1}
INVARIANTS Incremental RoundTripOk LastLinkOk EntryKept
CHECK_DEADLOCK FALSE
