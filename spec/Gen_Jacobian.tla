---------------------------- MODULE Gen_Jacobian ----------------------------
(***************************************************************************)
(* Exact geometric Jacobian of the OPW link model on the lattice (C15).    *)
(* Reuses the chain model (one Joint action per link, module Gen_Chain);   *)
(* for complete chains column i = (axis_i x (p_flange - p_i), axis_i) is   *)
(* printed: joint axes and origins are those of the link poses in the      *)
(* state.  Chains are limited to three generic (non quarter-turn) joints   *)
(* by a state constraint so that all scaled integers stay below 2^31.      *)
(* v is scaled by 5^vn (and by the length unit), w by 5^wn.                *)
(***************************************************************************)
EXTENDS Gen_Chain, FiniteSets

Generic(v) == Cardinality({i \in 1..Len(v) : v[i] % 3 # 0})
AtMostThreeGeneric == Generic(e) <= 3

Column(i) ==
  LET A == links[i]  F == links[6]
      z == MatVec(A.R, AxisLocal(i))                                   \* scale 5^A.n
      lever == VecSub(VecScale(Pow5(A.n), F.t), VecScale(Pow5(F.n), A.t))   \* scale 5^(A.n + F.n)
  IN [v |-> Cross(z, lever), vn |-> 2 * A.n + F.n, w |-> z, wn |-> A.n]

EmitJac ==
  (Len(e) = 6 /\ Generic(e) >= 1) =>
     PrintT(ToJson([gen |-> "jac", p |-> ParamSets[ps], e |-> e, flange |-> links[6],
                    cols |-> [i \in 1..6 |-> Column(i)]]))
\* model sanity: the angular part of every column is a unit axis
UnitAxes ==
  Len(e) = 6 => \A i \in 1..6 : LET c == Column(i) IN Dot(c.w, c.w) = Pow5(c.wn) * Pow5(c.wn)
=============================================================================
