------------------------------ MODULE Gen_Yaml ------------------------------
(***************************************************************************)
(* Variant lattice of the documented YAML parameter format (C19, B1).      *)
(* Actions choose, one after the other, the literal style of the lengths,  *)
(* the token pattern of the offsets, the array lengths, the place and      *)
(* value of the dof entry and the sixth sign; every complete variant is    *)
(* printed with its expected meaning.  The model also shows that the       *)
(* printer's output is inside the variant lattice (PrinterCovered).        *)
(***************************************************************************)
EXTENDS ParamFiles, TLC, Json

LengthStyles == {"all-int", "all-real", "mixed"}
OffsetPatterns == {
  <<"int", "int", "deg-real", "int", "int", "deg-int">>,
  <<"real", "real", "real", "real", "real", "real">>,
  <<"deg-real", "deg-int", "int", "real", "deg-real", "int">>,
  <<"int", "int", "int", "int", "int", "int">> }
Layouts == {"plain", "comments", "indent4"}

VARIABLES v, stage
vars == <<v, stage>>
Init == stage = 0 /\ v = [x \in {} |-> 0]
Set(k, val) == v' = [y \in DOMAIN v \cup {k} |-> IF y = k THEN val ELSE v[y]]
Next ==
  \/ stage = 0 /\ stage' = 1 /\ \E s \in LengthStyles : Set("lengths", s)
  \/ stage = 1 /\ stage' = 2 /\ \E o \in OffsetPatterns : Set("offsets", o)
  \/ stage = 2 /\ stage' = 3 /\ \E n \in DocumentedArrayLengths : Set("noff", n)
  \/ stage = 3 /\ stage' = 4 /\ \E n \in DocumentedArrayLengths : Set("nsign", n)
  \/ stage = 4 /\ stage' = 5 /\ \E d \in {<<"absent", 6>>, <<"top", 5>>, <<"top", 6>>, <<"nested", 5>>, <<"nested", 6>>} : Set("dof", d)
  \/ stage = 5 /\ stage' = 6 /\ \E s \in {-1, 0, 1} : Set("sign6", s)
  \/ stage = 6 /\ stage' = 7 /\ \E y \in Layouts : Set("layout", y)
Spec == Init /\ [][Next]_vars

Emit == stage = 7 =>
  LET dof == ExpectedDof(v.dof[1], v.dof[2]) IN
  PrintT(ToJson([gen |-> "yaml", lengths |-> v.lengths, offsets |-> v.offsets, noff |-> v.noff, nsign |-> v.nsign,
                 dof_place |-> v.dof[1], dof_value |-> v.dof[2], sign6 |-> v.sign6, layout |-> v.layout,
                 expect_dof |-> dof, expect_sign6 |-> ExpectedSign6(v.nsign, v.sign6, dof),
                 expect_off6_zero |-> v.noff \in {0, 5}]))

\* the tokens used by the variants are exactly the documented ones, and the printer's own output is among them
TokensDocumented == stage >= 2 => \A i \in 1..6 : v.offsets[i] \in DocumentedOffsetTokens
PrinterCovered ==
  /\ \A vc \in ValueClasses : PrinterLengthToken(vc) \in ReaderLengthTokens
  /\ \A z \in BOOLEAN : PrinterOffsetToken(z) \in ReaderOffsetTokens
  /\ PrinterDofPlace \in ReaderDofPlaces
\* the legacy reader is NOT adequate (reported, not required): printer output it cannot read
LegacyAdequate ==
  /\ \A vc \in ValueClasses : PrinterLengthToken(vc) \in LegacyReaderLengthTokens
  /\ PrinterDofPlace \in LegacyReaderDofPlaces
=============================================================================
