SPECIFICATION Spec
INVARIANT LegacyAdequate
CHECK_DEADLOCK FALSE
