SPECIFICATION Spec
CONSTANTS PSets = {1, 2}
          Angles = {0, 1, 5, 10}
INVARIANTS ProperRotations Offsets Emit
CHECK_DEADLOCK FALSE
