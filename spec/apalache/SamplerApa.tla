----------------------------- MODULE SamplerApa -----------------------------
(***************************************************************************)
(* Symbolic check (Apalache, SMT) of the core of C07: for ALL integer      *)
(* limits and angles within +-4 turns, in units of 1e-4 degree             *)
(* (N = 3 600 000 per turn) - not only on a lattice - the code's centre /  *)
(* tolerance test (ImplAccept) is arc membership (OnArc); acceptance is    *)
(* invariant under whole turns added to the angle or to both limits; a     *)
(* span of a turn or more accepts everything; the centre is accepted.      *)
(* The definitions are those of module Limits, restated with Apalache type *)
(* annotations.                                                            *)
(***************************************************************************)
EXTENDS Integers

N == 3600000
R == 4 * N

VARIABLES
  \* @type: Int;
  f,
  \* @type: Int;
  t,
  \* @type: Int;
  a,
  \* @type: Int;
  s

Abs(x) == IF x < 0 THEN -x ELSE x
Min(x, y) == IF x < y THEN x ELSE y
Mod(x) == x % N

ArcLen(ff, tt) == IF ff = tt THEN N ELSE IF ff < tt THEN Min(tt - ff, N) ELSE Mod(tt - ff)
Ambiguous(ff, tt) == ff > tt /\ Mod(tt - ff) = 0
OnArc(ff, tt, aa) == IF ArcLen(ff, tt) >= N THEN TRUE ELSE Mod(aa - ff) <= ArcLen(ff, tt)

\* smallest tt + k N >= ff (the `while b < a` loop of compute_centers)
Unwrap(ff, tt) == IF tt >= ff THEN tt ELSE tt + N * ((ff - tt + N - 1) \div N)
Centre2(ff, tt) == ff + Unwrap(ff, tt)
Tol2(ff, tt) == Unwrap(ff, tt) - ff
ImplAccept(ff, tt, aa) ==
  IF ff = tt THEN TRUE
  ELSE LET d0 == Abs(2 * aa - Centre2(ff, tt)) % (2 * N)
           d == IF d0 > N THEN 2 * N - d0 ELSE d0
       IN d <= Tol2(ff, tt)

Init == f \in -R..R /\ t \in -R..R /\ a \in -R..R /\ s \in 0..R
Next == UNCHANGED <<f, t, a, s>>

ImplIsArc == Ambiguous(f, t) \/ (ImplAccept(f, t, a) <=> OnArc(f, t, a))
TurnInvariant == /\ OnArc(f, t, a + N) <=> OnArc(f, t, a)
                 /\ OnArc(f + N, t + N, a) <=> OnArc(f, t, a)
FullTurn == ((f < t /\ t - f >= N) \/ f = t) => OnArc(f, t, a)
\* the reported centre (when it is a whole unit) is accepted
CentreAccepted == (f # t /\ ~Ambiguous(f, t) /\ Centre2(f, t) % 2 = 0) => OnArc(f, t, Centre2(f, t) \div 2)
\* C18: the one-segment sampler (offset s drawn from 0..SampleLen-1, added to `from') stays on the arc and is
\* accepted by the code's own test, for every integer offset
SampleLen(ff, tt) == IF ff < tt THEN tt - ff ELSE IF Mod(tt - ff) = 0 THEN N ELSE Mod(tt - ff)
SampleOnArc == (~Ambiguous(f, t) /\ s < SampleLen(f, t)) => (OnArc(f, t, f + s) /\ ImplAccept(f, t, f + s))
All == ImplIsArc /\ TurnInvariant /\ FullTurn /\ CentreAccepted
=============================================================================
