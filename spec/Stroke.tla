------------------------------- MODULE Stroke -------------------------------
(***************************************************************************)
(* Cartesian stroke planning (src/path_plan/cartesian.rs) as the code runs *)
(* it: the landing pose has several IK solutions ("strategies") which are  *)
(* probed in parallel (rayon find_map_any) and share a stop flag.  Probing *)
(* one strategy = onboarding by RRT from the start configuration, then one *)
(* window per consecutive pair of densified poses (direct transition,      *)
(* adaptive bisection, or RRT gap closing), a final stop check and the     *)
(* collision check of the whole trace; the closure that receives a         *)
(* successful probe raises the stop flag.  What the numeric oracles        *)
(* (IK, transition cost, collisions, RRT success) answer is chosen         *)
(* nondeterministically per strategy, so TLC explores every schedule for   *)
(* every oracle outcome.                                                   *)
(***************************************************************************)
EXTENDS Integers, Sequences, FiniteSets

CONSTANTS NStrat,     \* number of strategies probed in parallel
          Kinds,      \* flags of the densified poses, e.g. <<"LAND","LIN","TRACE","LIN","PARK">>
          RaiseEarly  \* FALSE: the design as specified.  TRUE: a named deviation in which a strategy raises the stop
                      \* flag as soon as its trace is complete, BEFORE its own collision check (MC_StrokeDeviation
                      \* shows that RaceOK then fails: a colliding strategy can cancel the only viable one)

WindowOutcomes == {"direct", "bisect", "rrt", "fail"}
NW == Len(Kinds) - 1
Strats == 1..NStrat

VARIABLES onb,        \* onb[s]: the onboarding RRT can succeed
          win,        \* win[s][w]: what window w of strategy s does
          free,       \* free[s]: every waypoint of the trace passes the collision check
          pc, wi, trace,  \* per strategy: control state, current window, the annotated trace built so far
          stop, some  \* shared stop flag; strategies whose result reached find_map_any
vars == <<onb, win, free, pc, wi, trace, stop, some>>

Init ==
  /\ onb \in [Strats -> BOOLEAN] /\ win \in [Strats -> [1..NW -> WindowOutcomes]] /\ free \in [Strats -> BOOLEAN]
  /\ pc = [s \in Strats |-> "onboard"] /\ wi = [s \in Strats |-> 1] /\ trace = [s \in Strats |-> <<>>] /\ stop = FALSE /\ some = {}

Fail(s) == pc' = [pc EXCEPT ![s] = "failed"] /\ UNCHANGED <<wi, trace, stop, some>>

\* RRT checks the stop flag at its loop head: a raised flag cancels it
Onboard(s) ==
  /\ pc[s] = "onboard"
  /\ IF ~onb[s] \/ stop THEN Fail(s)
     ELSE /\ trace' = [trace EXCEPT ![s] = <<"ONBOARDING", "LAND">>]     \* start .. strategy point
          /\ pc' = [pc EXCEPT ![s] = "window"] /\ UNCHANGED <<wi, stop, some>>
  /\ UNCHANGED <<onb, win, free>>

Window(s) ==
  /\ pc[s] = "window"
  /\ LET w == wi[s]  to == Kinds[w + 1]  k == win[s][w]
         next == IF w = NW THEN "endcheck" ELSE "window" IN
     CASE k = "direct" -> /\ trace' = [trace EXCEPT ![s] = Append(@, to)]
                          /\ pc' = [pc EXCEPT ![s] = next] /\ wi' = [wi EXCEPT ![s] = w + 1] /\ UNCHANGED <<stop, some>>
       [] k = "bisect" -> /\ trace' = [trace EXCEPT ![s] = @ \o <<"LIN", to>>]   \* interpolated waypoints, then the pose itself
                          /\ pc' = [pc EXCEPT ![s] = next] /\ wi' = [wi EXCEPT ![s] = w + 1] /\ UNCHANGED <<stop, some>>
       [] k = "rrt"    -> IF stop THEN Fail(s)
                          ELSE /\ trace' = [trace EXCEPT ![s] = @ \o <<"JOINT", to>>]   \* joint-space detour, not Cartesian
                               /\ pc' = [pc EXCEPT ![s] = next] /\ wi' = [wi EXCEPT ![s] = w + 1] /\ UNCHANGED <<stop, some>>
       [] OTHER        -> Fail(s)
  /\ UNCHANGED <<onb, win, free>>

EndCheck(s) ==
  /\ pc[s] = "endcheck"
  /\ IF stop THEN Fail(s)
     ELSE /\ pc' = [pc EXCEPT ![s] = "collcheck"] /\ UNCHANGED <<wi, trace, some>>
          /\ stop' = (IF RaiseEarly THEN TRUE ELSE stop)
  /\ UNCHANGED <<onb, win, free>>

CollisionCheck(s) ==
  /\ pc[s] = "collcheck"
  /\ IF free[s] THEN pc' = [pc EXCEPT ![s] = "publish"] /\ UNCHANGED <<wi, trace, stop, some>> ELSE Fail(s)
  /\ UNCHANGED <<onb, win, free>>

\* the closure of find_map_any: raise the flag, hand the result over
Publish(s) ==
  /\ pc[s] = "publish"
  /\ stop' = TRUE /\ some' = some \cup {s} /\ pc' = [pc EXCEPT ![s] = "done"]
  /\ UNCHANGED <<onb, win, free, wi, trace>>

Next == \E s \in Strats : Onboard(s) \/ Window(s) \/ EndCheck(s) \/ CollisionCheck(s) \/ Publish(s)
Spec == Init /\ [][Next]_vars

\* ---- properties (C12) ------------------------------------------------------------------
Viable(s) == onb[s] /\ free[s] /\ \A w \in 1..NW : win[s][w] # "fail"
AllDone == \A s \in Strats : pc[s] \in {"done", "failed"}

\* the race never turns success into failure, and only viable strategies are returned
RaceOK == AllDone => ((\E s \in Strats : Viable(s)) <=> some # {}) /\ \A s \in some : Viable(s)

\* grammar of a returned trace: ONBOARDING* LAND (LIN* TRACE)* LIN* PARK  (JOINT marks an RRT detour)
RECURSIVE Grammar(_, _)
Grammar(t, st) ==
  IF t = <<>> THEN st = "parked"
  ELSE LET f == Head(t) IN
    CASE st = "start"  -> f \in {"ONBOARDING", "LAND"} /\ Grammar(Tail(t), IF f = "LAND" THEN "stroke" ELSE "start")
      [] st = "stroke" -> f \in {"LIN", "JOINT", "TRACE", "PARK"} /\ Grammar(Tail(t), IF f = "PARK" THEN "parked" ELSE "stroke")
      [] OTHER -> FALSE
GrammarOK == \A s \in some : Grammar(trace[s], "start")
\* the original poses appear in order
Originals(t) == SelectSeq(t, LAMBDA f : f \in {"LAND", "TRACE", "PARK"})
OrderOK == \A s \in some : Originals(trace[s]) = SelectSeq(Kinds, LAMBDA f : f \in {"LAND", "TRACE", "PARK"})
=============================================================================
