SPECIFICATION Spec
CONSTANTS NStrat = 2
          Kinds <- MCKinds
          RaiseEarly = TRUE
INVARIANT RaceOK
CHECK_DEADLOCK FALSE
