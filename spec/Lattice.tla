------------------------------ MODULE Lattice ------------------------------
(***************************************************************************)
(* Exact rotations, isometries and their composition on a lattice.         *)
(*                                                                         *)
(* Lattice angles: index k in 0..11 stands for (k \div 3)*90 deg + one of  *)
(* {0, th, 90deg - th} with th = atan(3/4), so that 5*cos and 5*sin are    *)
(* integers (0, +-3, +-4, +-5).  Quarter turns give degenerate / singular  *)
(* configurations exactly, th-angles give generic ones (th/pi is           *)
(* irrational).  A rotation is an integer 3x3 matrix R with scale exponent *)
(* n, standing for R / 5^n; an isometry [R, t, n] stands for               *)
(* x |-> (R x + t) / 5^n.  Everything is integer arithmetic, so TLC        *)
(* computes forward kinematics, wrapper compositions and Jacobian columns  *)
(* exactly; TLC reports 32-bit overflow as an error (never wraps).         *)
(***************************************************************************)
EXTENDS Integers, Sequences

LatticeAngles == 0..11
QuarterAngles == {0, 3, 6, 9}
GenericAngles == LatticeAngles \ QuarterAngles

\* 5*cos and 5*sin of lattice angle k
BaseC == <<5, 4, 3>>
BaseS == <<0, 3, 4>>
C5(k) == LET q == (k % 12) \div 3  r == (k % 3) + 1 IN
         CASE q = 0 -> BaseC[r] [] q = 1 -> -BaseS[r] [] q = 2 -> -BaseC[r] [] OTHER -> BaseS[r]
S5(k) == LET q == (k % 12) \div 3  r == (k % 3) + 1 IN
         CASE q = 0 -> BaseS[r] [] q = 1 -> BaseC[r] [] q = 2 -> -BaseS[r] [] OTHER -> -BaseC[r]

\* negation of a lattice angle stays on the lattice: -(q*90+x) = (-q-1)*90 + (90-x) for x # 0
NegAngle(k) == LET q == k \div 3  r == k % 3 IN
               IF r = 0 THEN ((4 - q) % 4) * 3 ELSE ((7 - q) % 4) * 3 + (3 - r)
\* adding quarter turns
AddQuarter(k, quarters) == (k + 3 * (quarters % 4) + 12) % 12

Pow5(n) == CASE n = 0 -> 1 [] n = 1 -> 5 [] n = 2 -> 25 [] n = 3 -> 125 [] n = 4 -> 625
             [] n = 5 -> 3125 [] n = 6 -> 15625 [] n = 7 -> 78125 [] n = 8 -> 390625
             [] n = 9 -> 1953125 [] n = 10 -> 9765625 [] n = 11 -> 48828125 [] OTHER -> 244140625

\* ---- matrices are <<row1, row2, row3>>, vectors <<x, y, z>> ---------------
I3 == << <<1, 0, 0>>, <<0, 1, 0>>, <<0, 0, 1>> >>
MatMul(A, B) == [i \in 1..3 |-> [j \in 1..3 |-> A[i][1] * B[1][j] + A[i][2] * B[2][j] + A[i][3] * B[3][j]]]
MatVec(A, v) == [i \in 1..3 |-> A[i][1] * v[1] + A[i][2] * v[2] + A[i][3] * v[3]]
Transpose(A) == [i \in 1..3 |-> [j \in 1..3 |-> A[j][i]]]
VecAdd(u, v) == [i \in 1..3 |-> u[i] + v[i]]
VecSub(u, v) == [i \in 1..3 |-> u[i] - v[i]]
VecScale(k, v) == [i \in 1..3 |-> k * v[i]]
Dot(u, v) == u[1] * v[1] + u[2] * v[2] + u[3] * v[3]
Cross(u, v) == << u[2] * v[3] - u[3] * v[2], u[3] * v[1] - u[1] * v[3], u[1] * v[2] - u[2] * v[1] >>
Col(A, j) == <<A[1][j], A[2][j], A[3][j]>>
Det(A) == Dot(A[1], Cross(A[2], A[3]))

RotZ5(k) == << <<C5(k), -S5(k), 0>>, <<S5(k), C5(k), 0>>, <<0, 0, 5>> >>
RotY5(k) == << <<C5(k), 0, S5(k)>>, <<0, 5, 0>>, <<-S5(k), 0, C5(k)>> >>
RotX5(k) == << <<5, 0, 0>>, <<0, C5(k), -S5(k)>>, <<0, S5(k), C5(k)>> >>

\* ---- isometries -----------------------------------------------------------
Iso(R, t, n) == [R |-> R, t |-> t, n |-> n]
IdIso == Iso(I3, <<0, 0, 0>>, 0)

AllDiv5(m) == \A i \in 1..3 : (m.t[i] % 5 = 0) /\ \A j \in 1..3 : m.R[i][j] % 5 = 0
Div5(m) == Iso([i \in 1..3 |-> [j \in 1..3 |-> m.R[i][j] \div 5]], [i \in 1..3 |-> m.t[i] \div 5], m.n - 1)
RECURSIVE Reduce(_)
Reduce(m) == IF m.n > 0 /\ AllDiv5(m) THEN Reduce(Div5(m)) ELSE m

\* (A then-applied-after B): x |-> A(B(x))
Compose(A, B) ==
  Reduce(Iso(MatMul(A.R, B.R), VecAdd(MatVec(A.R, B.t), VecScale(Pow5(B.n), A.t)), A.n + B.n))

Trans(x, y, z) == Iso(I3, <<x, y, z>>, 0)
RotIso(axis, k) == Reduce(Iso(CASE axis = "x" -> RotX5(k) [] axis = "y" -> RotY5(k) [] OTHER -> RotZ5(k),
                              <<0, 0, 0>>, 1))
\* elementary joint transform: translate, then rotate about the (translated) axis
Step(t, axis, k) == Compose(Trans(t[1], t[2], t[3]), RotIso(axis, k))

\* inverse: (R/5^n)^-1 = R^T / 5^n ; translation -(R^T t)/5^(2n)
Inverse(m) == Reduce(Iso([i \in 1..3 |-> [j \in 1..3 |-> Pow5(m.n) * m.R[j][i]]],
                         VecScale(-1, MatVec(Transpose(m.R), m.t)), 2 * m.n))

\* two isometries denote the same map (both are reduced, so equality of representations suffices)
SameIso(A, B) == Reduce(A) = Reduce(B)

\* a proper unit rotation: R R^T = 25^n I and right handed (valid for n <= 6: 32 bit)
Proper(m) ==
  /\ MatMul(m.R, Transpose(m.R)) = [i \in 1..3 |-> [j \in 1..3 |-> IF i = j THEN Pow5(m.n) * Pow5(m.n) ELSE 0]]
  /\ Cross(Col(m.R, 1), Col(m.R, 2)) = VecScale(Pow5(m.n), Col(m.R, 3))   \* right handed: det = +1
=============================================================================
