SPECIFICATION Spec
CONSTANTS Grid = 7
          MaxTry = 2
          MaxBlocked = 1
          EagerAdd = TRUE
INVARIANT TreesFree
CHECK_DEADLOCK FALSE
