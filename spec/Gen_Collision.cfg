SPECIFICATION Spec
CONSTANTS MaxEntries = 1
INVARIANTS Sane Emit
CHECK_DEADLOCK FALSE
