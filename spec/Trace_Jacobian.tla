--------------------------- MODULE Trace_Jacobian ---------------------------
(***************************************************************************)
(* Trace specification for the Jacobian (binding B3 of C15).  One event =  *)
(* one Jacobian::new on a random robot / wrapper stack plus the derived    *)
(* calls.  Errors are logged as thousandths of the allowed error, which is *)
(* computed from the differencing step (20 * eps * (1 + reach)); the       *)
(* reference is the geometric Jacobian of the independent link model,      *)
(* itself replayed against the exact TLA+ columns (Gen_Jacobian).          *)
(***************************************************************************)
EXTENDS Integers, Sequences, TLC, Json, IOUtils

Rec == ndJsonDeserialize(IOEnv.TRACE)
VARIABLE l
COND_BOUND == 10000

Judge(e) ==
  IF e.outcome # "ok" THEN {"C15:panic"} ELSE
  (IF \E i \in 1..6 : e.col_err_milli[i] > 1000 THEN {"C15:column-differs-from-geometric"} ELSE {})
  \cup (IF e.torque_err_milli > 1000 THEN {"C15:torques-not-transpose-times-wrench"} ELSE {})
  \cup (IF e.torque_agree_milli > 1000 THEN {"C15:torque-entry-points-disagree"} ELSE {})
  \cup (IF e.cond < COND_BOUND /\ (~e.vel_ok \/ e.vel_res_milli > 1000) THEN {"C15:velocities-do-not-reproduce-twist"} ELSE {})
  \cup (IF e.vel_ok /\ e.vel_agree_milli > 1000 THEN {"C15:velocity-entry-points-disagree"} ELSE {})

Init == l = 1
Next ==
  /\ l <= Len(Rec)
  /\ LET bad == Judge(Rec[l]) IN bad = {} \/ PrintT(ToJson([tag |-> "viol", l |-> l, clause |-> bad]))
  /\ TLCSet(1, l)
  /\ l' = l + 1
Spec == Init /\ [][Next]_l
Post == PrintT(ToJson([tag |-> "done", n |-> IF Len(Rec) = 0 THEN 0 ELSE TLCGet(1)]))
=============================================================================
