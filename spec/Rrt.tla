-------------------------------- MODULE Rrt --------------------------------
(***************************************************************************)
(* Dual-tree RRT-connect (src/path_plan/rrt_to.rs) on a one-dimensional    *)
(* integer world, action by action as the code runs it:                    *)
(*   LoopHead loop head: cancellation flag, try budget                     *)
(*   Sample   draw a sample and EXTEND the active tree towards it          *)
(*   Connect  one EXTEND of the other tree towards the new vertex          *)
(*   (swap of the trees after every unsuccessful round)                    *)
(* A tree is a sequence of [q, p] (position, parent index; 0 for the root) *)
(* `extend' asks the freeness oracle exactly once, for the candidate       *)
(* vertex, BEFORE adding it.  Nearest-neighbour ties are nondeterministic. *)
(* History variables `samples' and `queries' record what a real run would  *)
(* draw and ask, so that complete behaviours can be replayed into the real *)
(* implementation with scripted closures (hook H2).                        *)
(***************************************************************************)
EXTENDS Integers, Sequences, FiniteSets

CONSTANTS Grid,        \* positions 0..Grid
          MaxTry,      \* try budget (num_max_try)
          MaxBlocked,  \* at most this many blocked cells
          EagerAdd     \* FALSE: as specified.  TRUE: a named deviation in which `extend' adds the candidate vertex
                       \* before asking whether it is free (MC_RrtDeviation shows that TreesFree / PathOK then fail)

VARIABLES start, goal, len, blocked, stopAt,   \* scenario (chosen initially)
          ta, tb, nameA,                        \* active tree, other tree, name of the active tree
          tries, phase, target, newIdx,         \* control state
          stop, samples, queries, result        \* cancellation flag, histories, outcome
vars == <<start, goal, len, blocked, stopAt, ta, tb, nameA, tries, phase, target, newIdx, stop, samples, queries, result>>
scenario == <<start, goal, len, blocked, stopAt>>

Abs(x) == IF x < 0 THEN -x ELSE x
Cells == 0..Grid

Init ==
  /\ start \in {1, 2} /\ goal \in {Grid - 2, Grid - 1} /\ len \in {1, 2}
  /\ blocked \in {B \in SUBSET (Cells \ {start, goal}) : Cardinality(B) <= MaxBlocked}
  /\ stopAt \in {-1, 0, 1, 2}        \* -1: never; 0: raised before the call; k: raised while drawing sample k
  /\ ta = <<[q |-> start, p |-> 0]>> /\ tb = <<[q |-> goal, p |-> 0]>> /\ nameA = "start"
  /\ tries = 0 /\ phase = "head" /\ target = 0 /\ newIdx = 0
  /\ stop = (stopAt = 0) /\ samples = <<>> /\ queries = <<>> /\ result = <<>>

Nearest(t, x) == {i \in 1..Len(t) : \A k \in 1..Len(t) : Abs(t[i].q - x) <= Abs(t[k].q - x)}
\* candidate vertex of an extend step from vertex position `from' towards x
Candidate(from, x) == IF Abs(x - from) < len THEN x ELSE IF x > from THEN from + len ELSE from - len
Free(x) == x \notin blocked

Swap == ta' = tb /\ tb' = ta /\ nameA' = (IF nameA = "start" THEN "goal" ELSE "start")

RECURSIVE UntilRoot(_, _)
UntilRoot(t, i) == IF t[i].p = 0 THEN <<>> ELSE <<t[t[i].p].q>> \o UntilRoot(t, t[i].p)
Reverse(s) == [i \in 1..Len(s) |-> s[Len(s) + 1 - i]]

LoopHead ==
  /\ phase = "head"
  /\ IF tries >= MaxTry THEN phase' = "done" /\ result' = <<"failed">>
     ELSE IF stop THEN phase' = "done" /\ result' = <<"Cancelled">>
     ELSE phase' = "sample" /\ UNCHANGED result
  /\ UNCHANGED <<scenario, ta, tb, nameA, tries, target, newIdx, stop, samples, queries>>

Sample(x) ==
  /\ phase = "sample"
  /\ samples' = Append(samples, x)
  /\ stop' = (stop \/ stopAt = Len(samples) + 1)     \* another thread raises the flag while we sample
  /\ \E n \in Nearest(ta, x) :
       LET c == Candidate(ta[n].q, x) IN
       /\ queries' = Append(queries, <<c, Free(c)>>)
       /\ IF Free(c)
          THEN /\ ta' = Append(ta, [q |-> c, p |-> n]) /\ newIdx' = Len(ta) + 1 /\ target' = c
               /\ phase' = "connect" /\ UNCHANGED <<tb, nameA, tries>>
          ELSE IF EagerAdd
          THEN /\ ta' = tb /\ tb' = Append(ta, [q |-> c, p |-> n]) /\ nameA' = (IF nameA = "start" THEN "goal" ELSE "start")
               /\ tries' = tries + 1 /\ phase' = "head" /\ UNCHANGED <<newIdx, target>>   \* (deviation: vertex kept although trapped)
          ELSE /\ Swap /\ tries' = tries + 1 /\ phase' = "head" /\ UNCHANGED <<newIdx, target>>   \* trapped
  /\ UNCHANGED <<scenario, result>>

Connect ==
  /\ phase = "connect"
  /\ \E n \in Nearest(tb, target) :
       LET c == Candidate(tb[n].q, target) IN
       /\ queries' = Append(queries, <<c, Free(c)>>)
       /\ IF ~Free(c)
          THEN /\ Swap /\ tries' = tries + 1 /\ phase' = "head" /\ UNCHANGED <<result>>     \* trapped
          ELSE IF Abs(c - target) < len
          THEN \* reached: assemble the path (the two meeting vertices themselves are not part of it)
               LET a == Reverse(UntilRoot(ta, newIdx))
                   b == UntilRoot(Append(tb, [q |-> c, p |-> n]), Len(tb) + 1)
                   path == a \o b
               IN /\ result' = (IF nameA = "goal" THEN Reverse(path) ELSE path)
                  /\ phase' = "done" /\ tb' = Append(tb, [q |-> c, p |-> n]) /\ UNCHANGED <<ta, nameA, tries>>
          ELSE /\ tb' = Append(tb, [q |-> c, p |-> n]) /\ UNCHANGED <<ta, nameA, tries, phase, result>>   \* advanced
  /\ UNCHANGED <<scenario, target, newIdx, stop, samples>>

Next == LoopHead \/ (\E x \in Cells : Sample(x)) \/ Connect
Spec == Init /\ [][Next]_vars

\* ---- properties (C13) ----------------------------------------------------------------------
IsPath == phase = "done" /\ result # <<"failed">> /\ result # <<"Cancelled">>
PathOK == IsPath =>
  /\ Len(result) >= 2 /\ result[1] = start /\ result[Len(result)] = goal
  /\ \A i \in 1..Len(result) : Free(result[i])
  /\ \A i \in 1..(Len(result) - 1) : Abs(result[i + 1] - result[i]) <= 3 * len
\* a flag raised before the call, or seen at a loop head, yields an error, never a path found afterwards
CancelOK == (phase = "done" /\ stopAt = 0) => result = <<"Cancelled">>
\* every vertex ever added to a tree was reported free before it was added
TreesFree == (\A i \in 1..Len(ta) : Free(ta[i].q)) /\ (\A k \in 1..Len(tb) : Free(tb[k].q))
=============================================================================
