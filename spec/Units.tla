------------------------------- MODULE Units -------------------------------
(***************************************************************************)
(* Integer arithmetic shared by all specifications.                        *)
(*                                                                         *)
(* Angles are integers in some unit with `n' units per turn.  In trace     *)
(* specifications the unit is AU = 1e-4 degree (N_AU = 3 600 000 per       *)
(* turn); in bounded models it is a coarse lattice step (5 or 15 degrees). *)
(* TLC integers are 32 bit and overflow is an error, never a wrap-around.  *)
(***************************************************************************)
EXTENDS Integers, Sequences, FiniteSets

N_AU == 3600000          \* 1e-4 degree units per turn
HALF_AU == 1800000

Abs(x) == IF x < 0 THEN -x ELSE x
Min(a, b) == IF a < b THEN a ELSE b
Max(a, b) == IF a > b THEN a ELSE b

\* Euclidean remainder in 0..n-1 (TLC's % is already non-negative for n > 0).
Mod(x, n) == x % n

\* Circular distance between two angles, in 0..n/2.
CircDist(a, b, n) == LET d == Mod(a - b, n) IN IF 2 * d > n THEN n - d ELSE d

\* The representative of angle `a' (mod n) nearest to `p'; ties prefer the larger.
Nearest(a, p, n) ==
  LET d == Mod(a - p, n) IN IF 2 * d > n THEN p + d - n ELSE p + d

\* Signed difference folded into (-n/2, n/2].
Fold(d, n) == LET r == Mod(d, n) IN IF 2 * r > n THEN r - n ELSE r

RECURSIVE SumSeq(_)
SumSeq(s) == IF s = <<>> THEN 0 ELSE Head(s) + SumSeq(Tail(s))

\* Manhattan distance of two integer vectors of equal length.
Dist1(u, v) == SumSeq([i \in 1..Len(u) |-> Abs(u[i] - v[i])])

Range(s) == {s[i] : i \in DOMAIN s}
=============================================================================
