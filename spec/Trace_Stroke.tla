---------------------------- MODULE Trace_Stroke ----------------------------
(***************************************************************************)
(* Trace specification for planned Cartesian strokes (C12, binding B2).    *)
(* A successful plan is a sequence of `wp' events between a `plan' header  *)
(* and `planend'; the trace spec runs the grammar automaton of module      *)
(* Stroke over the waypoint flags                                          *)
(*      ONBOARDING* LAND (LIN_INTERP* TRACE)* LIN_INTERP* PARK             *)
(* (state variables st, seen) and judges every waypoint: starts at the     *)
(* given start configuration, collision free, inside the limits (TLC's     *)
(* OnArc), original poses reproduced by the independent forward model,     *)
(* interpolated waypoints on the straight segment and only when requested, *)
(* transition cost within the configured bound.  `group' events carry the  *)
(* outcomes of one scenario under all rayon pools / repeats.               *)
(***************************************************************************)
EXTENDS Limits, Collision, TLC, Json, IOUtils
Rec == ndJsonDeserialize(IOEnv.TRACE)

VARIABLES l, st, seen, hdr
vars == <<l, st, seen, hdr>>

Has(e, f) == \E i \in 1..Len(e.flags) : e.flags[i] = f
KindOf(e) == IF Has(e, "ONBOARDING") THEN "ONB"
             ELSE IF Has(e, "LIN_INTERP") THEN "LIN"
             ELSE IF Has(e, "LAND") THEN "LAND" ELSE IF Has(e, "TRACE") THEN "TRACE"
             ELSE IF Has(e, "PARK") THEN "PARK" ELSE "NONE"

NextSt(k) ==
  CASE st = "start" /\ k = "ONB" -> "start"
    [] st = "start" /\ k = "LAND" -> "stroke"
    [] st = "stroke" /\ k \in {"LIN", "TRACE"} -> "stroke"
    [] st = "stroke" /\ k = "NONE" /\ hdr.windows.rrt > 0 -> "stroke"     \* joint-space detour of an RRT-closed window
    [] st = "stroke" /\ k = "PARK" -> "parked"
    [] OTHER -> "bad"

\* the collision verdict of module Collision on the brute-force distances of all pairs (robot with tool and base)
ToSet(s) == {s[i] : i \in DOMAIN s}
CfgOf == [tool |-> TRUE, base |-> TRUE, nenv |-> hdr.nenv,
          table |-> {<<t[1], t[2], t[3]>> : t \in ToSet(hdr.table)}, def_env |-> hdr.def_env, def_robot |-> hdr.def_robot]
GeoOf(e) == [p \in Relevant(CfgOf) |->
               LET x == CHOOSE y \in ToSet(e.pairs) : y.a = p[1] /\ y.b = p[2] IN [d |-> x.d, touch |-> x.touch]]

JudgeWp(e) ==
  LET k == KindOf(e) IN
  (IF e.i = 1 /\ ~e.is_start THEN {"C12:path-does-not-begin-at-the-start-configuration"} ELSE {})
  \cup (IF NextSt(k) = "bad" /\ st # "bad" THEN {"C12:flags-out-of-order"} ELSE {})
  \cup (IF Has(e, "LIN_INTERP") /\ (Has(e, "TRACE") \/ Has(e, "PARK") \/ Has(e, "LAND") \/ Has(e, "ONBOARDING"))
        THEN {"C12:interpolated-waypoint-carries-the-flag-of-an-original-pose"} ELSE {})
  \cup (IF e.collides THEN {"C12:colliding-waypoint"} ELSE {})
  \cup (IF Sure(CfgOf, GeoOf(e)) # {} THEN {"C12:waypoint-violates-the-configured-distances"} ELSE {})
  \cup (IF ~OnArcVec(e.from, e.to, e.q, N_AU) /\ EndDistVec(e.from, e.to, e.q, N_AU) >= BandLim THEN {"C12:waypoint-outside-limits"} ELSE {})
  \cup (IF k \in {"LAND", "TRACE", "PARK"} /\ e.fk_nm > 1100 THEN {"C12:original-pose-not-reproduced"} ELSE {})
  \cup (IF k = "LIN" /\ ~hdr.include THEN {"C12:interpolated-waypoint-although-not-requested"} ELSE {})
  \cup (IF k = "LIN" /\ e.seg_um > 5 THEN {"C12:interpolated-waypoint-off-the-straight-segment"} ELSE {})
  \cup (IF st = "stroke" /\ hdr.include /\ hdr.windows.rrt = 0 /\ e.cost_milli > 1001 THEN {"C12:transition-cost-exceeded"} ELSE {})
  \cup (IF k = "PARK" /\ st = "stroke" /\ seen # hdr.nsteps THEN {"C12:stroke-poses-missing-or-repeated"} ELSE {})

JudgeGroup(e) ==
  IF ~e.needs_rrt /\ \E i, k \in 1..Len(e.outcomes) : e.outcomes[i] # e.outcomes[k]
  THEN {"C12:success-depends-on-scheduling"} ELSE {}

Judge(e) ==
  CASE e.ev = "plan" -> IF e.outcome = "panic" THEN {"C12:panic"} ELSE {}
    [] e.ev = "wp" -> JudgeWp(e)
    [] e.ev = "planend" -> IF st # "parked" THEN {"C12:plan-does-not-end-with-the-parking-pose"} ELSE {}
    [] e.ev = "group" -> JudgeGroup(e)
    [] OTHER -> {"unknown-event"}

Init == l = 1 /\ st = "idle" /\ seen = 0 /\ hdr = [include |-> TRUE, nsteps |-> 0, windows |-> [direct |-> 0, bisect |-> 0, rrt |-> 0], nenv |-> 0, table |-> <<>>, def_env |-> 0, def_robot |-> 0]
Next ==
  /\ l <= Len(Rec)
  /\ LET e == Rec[l]  bad == Judge(e) IN
       /\ (bad = {} \/ PrintT(ToJson([tag |-> "viol", l |-> l, clause |-> bad])))
       /\ hdr' = IF e.ev = "plan" THEN [include |-> e.include, nsteps |-> e.nsteps, windows |-> e.windows, nenv |-> e.nenv, table |-> e.table,
                                              def_env |-> e.def_env, def_robot |-> e.def_robot] ELSE hdr
       /\ st' = CASE e.ev = "plan" -> "start" [] e.ev = "wp" -> NextSt(KindOf(e)) [] e.ev = "planend" -> "idle" [] OTHER -> st
       /\ seen' = CASE e.ev = "plan" -> 0 [] e.ev = "wp" /\ KindOf(e) = "TRACE" -> seen + 1 [] OTHER -> seen
  /\ TLCSet(1, l)
  /\ l' = l + 1
Spec == Init /\ [][Next]_vars
Post == PrintT(ToJson([tag |-> "done", n |-> IF Len(Rec) = 0 THEN 0 ELSE TLCGet(1)]))
=============================================================================
