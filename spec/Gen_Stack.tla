------------------------------ MODULE Gen_Stack ------------------------------
(***************************************************************************)
(* Bounded model + scenario generator for wrapper stacks (C09).            *)
(* One action per wrapper: `Wrap' puts a new outermost layer around the    *)
(* current stack.  Every state (stack of depth 0..MaxDepth) is checked for *)
(* the spec's round trip and printed with the exact poses; the harness     *)
(* builds the same stack twice (around a recording leaf and around the     *)
(* real OPW solver) and replays all entry points.                          *)
(* Constants: MaxDepth, Kinds (subset of IsoKinds), Isos (indices into     *)
(* IsoChoices), Leafs (indices into LeafConfigs).                          *)
(***************************************************************************)
EXTENDS Stack, OpwChain, TLC, Json

CONSTANTS MaxDepth, Kinds, Isos, Leafs

\* non-commuting lattice isometries: translation, quarter turn + translation, generic rotation + translation
IsoChoices == <<
  Trans(1, -2, 3),
  Compose(Trans(2, 0, -1), RotIso("x", 3)),
  Compose(Trans(-1, 3, 2), RotIso("y", 1)),
  Compose(Trans(0, 1, 4), RotIso("z", 10)),
  Trans(0, 0, 5),                                 \* axial tool (along the flange axis)
  Compose(Trans(0, 0, 2), RotIso("z", 4)),        \* axial tool with a twist about the axis
  RotIso("y", 1),                                 \* rotation only (no translation), generic angle
  RotIso("x", 9)                                  \* rotation only, quarter turn
>>

Params == [a1 |-> 3, a2 |-> -1, b |-> 1, c1 |-> 9, c2 |-> 11, c3 |-> 12, c4 |-> 2]
LeafConfigs == << <<1, 0, 4, 0, 3, 0>>, <<0, 5, 0, 10, 1, 3>>, <<3, 1, 1, 6, 10, 0>> >>

\* constant-level, evaluated once by TLC
LeafLinksAll == [l \in 1..Len(LeafConfigs) |-> LinkPoses(Params, LeafConfigs[l])]

\* the state carries the poses the stack reports, updated by every Wrap (one Compose per layer)
VARIABLES stack, leaf, pose, links
vars == <<stack, leaf, pose, links>>

Init == /\ stack = <<>> /\ leaf \in Leafs
        /\ pose = LeafLinksAll[leaf][6] /\ links = LeafLinksAll[leaf]
Closed == stack # <<>> /\ Head(stack).k \in {"Axis", "Gantry"}
Wrap(k, i) ==
  /\ Len(stack) < MaxDepth /\ ~Closed
  /\ LET L == [k |-> k, iso |-> IsoChoices[i], idx |-> i] IN
       /\ stack' = <<L>> \o stack
       /\ pose' = LayerForward(L, pose)
       /\ links' = LayerLinks(L, links)
  /\ UNCHANGED leaf

\* a linear axis / gantry carries the (wrapped) robot; it offers forward kinematics only, so the
\* stack cannot be wrapped any further afterwards
Mount(L) ==
  /\ ~Closed /\ Len(stack) <= MaxDepth
  /\ stack' = <<L>> \o stack
  /\ pose' = LayerForward(L, pose)
  /\ links' = links
  /\ UNCHANGED leaf
Mounts == {[k |-> "Axis", iso |-> IsoChoices[2], idx |-> 2, axis |-> 0, dist |-> 3],
           [k |-> "Axis", iso |-> IsoChoices[3], idx |-> 3, axis |-> 1, dist |-> -2],
           [k |-> "Axis", iso |-> IsoChoices[1], idx |-> 1, axis |-> 2, dist |-> 4],
           [k |-> "Gantry", iso |-> IsoChoices[3], idx |-> 3, shift |-> <<2, -1, 3>>]}
Next == \/ ~Closed /\ \E k \in Kinds, i \in Isos : Wrap(k, i)
        \/ \E L \in Mounts : Mount(L)
Spec == Init /\ [][Next]_vars

\* ---- properties of the specification itself ---------------------------------------
\* the incrementally built poses are the recursive definitions of module Stack
Incremental == /\ pose = StackForward(stack, LeafLinksAll[leaf][6])
               /\ links = StackLinks(stack, LeafLinksAll[leaf])
RoundTripOk == Closed \/ SameIso(LeafPose(stack, pose), LeafLinksAll[leaf][6])
LastLinkOk == Closed \/ ((\A i \in DOMAIN stack : stack[i].k \in {"Base", "Frame"}) => links[6] = pose)
EntryKept == \A en \in Entries : LeafEntry(stack, en) = en

Emit ==
  PrintT(ToJson([gen |-> "stack", layers |-> stack, e |-> LeafConfigs[leaf], p |-> Params,
                 leaf_pose |-> LeafLinksAll[leaf][6], pose |-> pose,
                 leaf_links |-> LeafLinksAll[leaf], links |-> links,
                 leaf_entry |-> [en \in Entries |-> LeafEntry(stack, en)]]))
=============================================================================
