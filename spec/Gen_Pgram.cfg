SPECIFICATION Spec
CONSTANTS MaxDepth = 1
INVARIANTS RoundTrip Emit
CHECK_DEADLOCK FALSE
