------------------------------ MODULE Trace_Rrt ------------------------------
(***************************************************************************)
(* Trace specification for the joint-space planner on real robots with     *)
(* shape (C13, binding B2).  One event = one RRTPlanner::plan_rrt call.    *)
(* A returned path starts / ends exactly at start / goal, every node is    *)
(* reported collision free by the same robot, consecutive nodes are at     *)
(* most three planner steps apart and within the (non-wrapping) limits; a  *)
(* flag raised before the call yields an error; raised during the call:    *)
(* an error or a path that satisfies all of the above.                     *)
(***************************************************************************)
EXTENDS Limits, TLC, Json, IOUtils
Rec == ndJsonDeserialize(IOEnv.TRACE)
VARIABLE l

Judge(e) ==
  IF e.outcome = "panic" THEN {"C13:panic"}
  ELSE IF e.outcome = "err" THEN {}
  ELSE
    (IF e.mode = "stop-before" THEN {"C13:path-returned-although-cancelled"} ELSE {})
    \cup (IF ~e.first_exact \/ ~e.last_exact \/ Len(e.nodes) < 2 THEN {"C13:path-does-not-join-start-and-goal"} ELSE {})
    \cup (IF \E i \in 1..Len(e.nodes) : e.nodes[i].collides THEN {"C13:colliding-node"} ELSE {})
    \cup (IF \E i \in 1..Len(e.nodes) : e.nodes[i].step_milli > 1001 THEN {"C13:nodes-more-than-three-steps-apart"} ELSE {})
    \cup (IF \E i \in 1..Len(e.nodes) : ~OnArcVec(e.from, e.to, e.nodes[i].q, N_AU) /\ EndDistVec(e.from, e.to, e.nodes[i].q, N_AU) >= BandLim
          THEN {"C13:node-outside-limits"} ELSE {})
Init == l = 1
Next ==
  /\ l <= Len(Rec)
  /\ LET bad == Judge(Rec[l]) IN bad = {} \/ PrintT(ToJson([tag |-> "viol", l |-> l, clause |-> bad]))
  /\ TLCSet(1, l)
  /\ l' = l + 1
Spec == Init /\ [][Next]_l
Post == PrintT(ToJson([tag |-> "done", n |-> IF Len(Rec) = 0 THEN 0 ELSE TLCGet(1)]))
=============================================================================
