------------------------------- MODULE Limits -------------------------------
(***************************************************************************)
(* Joint limits of rs-opw-kinematics (src/constraints.rs).                 *)
(*                                                                         *)
(* The property (C07): an angle is accepted exactly when, taken modulo a   *)
(* turn, it lies on the arc that starts at `from' and runs in the positive *)
(* direction to `to'.  `OnArc' below is that definition; `ImplAccept' is   *)
(* the way the code decides it (centre, tolerance, circular distance); the *)
(* bounded model MC_Limits checks that they coincide for every (from, to,  *)
(* angle) on a lattice, so that the code structure is a correct            *)
(* implementation of the definition, and trace specifications then judge   *)
(* the real code with `OnArc'.                                             *)
(*                                                                         *)
(* All angles are integers with `n' units per turn.                        *)
(***************************************************************************)
EXTENDS Units

\* ---- the definition ------------------------------------------------------
\* Length of the arc in units: n or more means "everything".
ArcLen(f, t, n) ==
  IF f = t THEN n                   \* from == to: unconstrained
  ELSE IF f < t THEN Min(t - f, n)  \* ordinary range, a turn or more accepts all
  ELSE Mod(t - f, n)                \* wrap-around range; 0 is the ambiguous case

\* The statement leaves from > to with from == to (mod turn) open: it is either a
\* single point or the full circle.  Such limits are "don't care".
Ambiguous(f, t, n) == f > t /\ Mod(t - f, n) = 0

OnArc(f, t, a, n) ==
  LET len == ArcLen(f, t, n) IN
  IF len >= n THEN TRUE ELSE Mod(a - f, n) <= len

\* Ends of the arc (where float rounding of the implementation may go either way).
\* The seam of a span of exactly one turn is such a point too (it is antipodal to the centre).
IsEnd(f, t, a, n) ==
  LET len == ArcLen(f, t, n) IN
  \/ len < n /\ (Mod(a - f, n) = 0 \/ Mod(a - f, n) = len)
  \/ f < t /\ t - f = n /\ Mod(a - f, n) = 0

\* Distance (in units) of `a' from the nearest arc end; used for don't-care bands.
EndDist(f, t, a, n) ==
  LET len == ArcLen(f, t, n) IN
  IF f < t /\ t - f = n THEN CircDist(a, f, n)
  ELSE IF len >= n THEN n
  ELSE Min(CircDist(a, f, n), CircDist(a, f + len, n))

\* ---- the implementation structure (compute_centers / inside_bounds) -------
\* centre and tolerance are kept doubled so that they stay integral.
Unwrap(f, t, n) == IF t >= f THEN t ELSE t + n * ((f - t + n - 1) \div n)

Centre2(f, t, n) == IF f = t THEN 0 ELSE f + Unwrap(f, t, n)
Tol2(f, t, n)    == IF f = t THEN -1 (* infinite *) ELSE Unwrap(f, t, n) - f

ImplAccept(f, t, a, n) ==
  IF Tol2(f, t, n) = -1 THEN TRUE     \* infinite tolerance: not constrained
  ELSE LET d0 == Mod(Abs(2 * a - Centre2(f, t, n)), 2 * n)
           d  == IF d0 > n THEN 2 * n - d0 ELSE d0
       IN d <= Tol2(f, t, n)

\* band (AU) around arc ends inside which trace specs accept either verdict of the float code
BandLim == 3

\* A vector is accepted when every joint is.
OnArcVec(fs, ts, as, n) == \A j \in DOMAIN as : OnArc(fs[j], ts[j], as[j], n)
AmbiguousVec(fs, ts, n) == \E j \in DOMAIN fs : Ambiguous(fs[j], ts[j], n)
EndDistVec(fs, ts, as, n) ==
  LET ds == {EndDist(fs[j], ts[j], as[j], n) : j \in DOMAIN as}
  IN CHOOSE d \in ds : \A e \in ds : d <= e

Filter(fs, ts, list, n) == SelectSeq(list, LAMBDA q : OnArcVec(fs, ts, q, n))

\* ---- the sampler (random_angles) -------------------------------------------
\* Specification: any angle on the arc.  Implementation structure: one offset
\* drawn from 0..len-1 (lattice version of gen_range(0.0..len)) added to `from'.
SampleLen(f, t, n) == IF f < t THEN t - f ELSE IF Mod(t - f, n) = 0 THEN n ELSE Mod(t - f, n)
SampleSet(f, t, n) == {f + s : s \in 0..(SampleLen(f, t, n) - 1)}

\* The two-segment algorithm as originally written in random_angles (kept as a
\* named deviation: MC_Limits shows for which (from, to) it leaves the arc).
LegacyLen(f, t, n) == IF f < t THEN t - f ELSE Abs(n - (f - t))
LegacySample(f, t, s, n) ==
  IF f < t THEN f + s
  ELSE IF s < n - f THEN f + s ELSE t + (s - (n - f))
=============================================================================
