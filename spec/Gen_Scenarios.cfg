SPECIFICATION Spec
CONSTANTS Thorough = FALSE
INVARIANT Emit
CHECK_DEADLOCK FALSE
