------------------------------ MODULE Collision ------------------------------
(***************************************************************************)
(* Collision checking of a robot body (src/collisions.rs): which pairs of  *)
(* bodies are relevant, which are exempt, what the verdict must be given   *)
(* the pairwise distances (C10), and which pairs must be re-checked after  *)
(* a single joint moved (C14).                                             *)
(*                                                                         *)
(* Bodies: links 0..5 (J1..J6), TOOL = 100, BASE = 101, environment        *)
(* objects 1000 + k.  Distances in micrometres; NEVER (negative) marks a   *)
(* pair that never collides, 0 = touch only.                               *)
(* cfg: [tool, base : BOOLEAN, nenv : Nat, table : set of <<a, b, r>>,     *)
(*       def_env, def_robot : Int]                                         *)
(***************************************************************************)
EXTENDS Integers, FiniteSets, Sequences

TOOL == 100
BASE == 101
ENV0 == 1000
NEVER_UM == -1000000
Links == 0..5
IsEnv(x) == x >= ENV0
Envs(cfg) == {ENV0 + k : k \in 0..(cfg.nenv - 1)}

Pair(a, b) == IF a < b THEN <<a, b>> ELSE <<b, a>>

\* the pairs of bodies that can collide at all (order-normalised)
Relevant(cfg) ==
  {x \in Links \X Links : x[2] - x[1] > 1}                                            \* non-adjacent links
  \cup {Pair(i, e) : i \in Links, e \in Envs(cfg)}                                    \* any link vs environment
  \cup (IF cfg.tool THEN {Pair(TOOL, e) : e \in Envs(cfg)} \cup {Pair(i, TOOL) : i \in 0..3} ELSE {})
  \cup (IF cfg.base THEN {Pair(i, BASE) : i \in 1..5} ELSE {})
  \cup (IF cfg.tool /\ cfg.base THEN {Pair(TOOL, BASE)} ELSE {})

\* safety distance of a pair: table entry in either key order, else the default of its class
HasEntry(cfg, a, b) == \E t \in cfg.table : (t[1] = a /\ t[2] = b) \/ (t[1] = b /\ t[2] = a)
Entry(cfg, a, b) == CHOOSE t \in cfg.table : (t[1] = a /\ t[2] = b) \/ (t[1] = b /\ t[2] = a)
Rmin(cfg, p) ==
  IF HasEntry(cfg, p[1], p[2]) THEN Entry(cfg, p[1], p[2])[3]
  ELSE IF IsEnv(p[1]) \/ IsEnv(p[2]) THEN cfg.def_env ELSE cfg.def_robot

Exempt(cfg, p) == Rmin(cfg, p) <= NEVER_UM

\* geometry: geo[p] = [d |-> distance in um, touch |-> intersecting]
BAND_UM == 60
Hit(cfg, geo, p) ==
  LET r == Rmin(cfg, p) IN
  IF r <= NEVER_UM THEN FALSE ELSE IF r = 0 THEN geo[p].touch ELSE geo[p].d <= r
\* pairs whose verdict float rounding could flip (distance within the band of the threshold)
Borderline(cfg, geo, p) ==
  LET r == Rmin(cfg, p) IN
  r > 0 /\ geo[p].d > r - BAND_UM /\ geo[p].d < r + BAND_UM

Expected(cfg, geo) == {p \in Relevant(cfg) : Hit(cfg, geo, p)}
Sure(cfg, geo) == {p \in Expected(cfg, geo) : ~Borderline(cfg, geo, p)}
Possible(cfg, geo) == Expected(cfg, geo) \cup {p \in Relevant(cfg) : ~Exempt(cfg, p) /\ Borderline(cfg, geo, p)}

\* ---- verdicts per API --------------------------------------------------------------
\* mode in {"all", "first", "nocheck"}; report is a set of pairs
ReportOk(cfg, geo, mode, report) ==
  CASE mode = "nocheck" -> report = {}
    [] mode = "all"     -> Sure(cfg, geo) \subseteq report /\ report \subseteq Possible(cfg, geo)
    [] mode = "first"   -> /\ report \subseteq Possible(cfg, geo)
                           /\ Cardinality(report) <= 1
                           /\ (Sure(cfg, geo) # {} => report # {})
CollidesOk(cfg, geo, mode, verdict) ==
  IF mode = "nocheck" THEN verdict = FALSE
  ELSE (Sure(cfg, geo) # {} => verdict) /\ (verdict => Possible(cfg, geo) # {})

\* ---- task enumeration (hook H3) --------------------------------------------------------
\* after joints 0..k-1 stayed where they were (skip = 0..k-1): a body moved iff it is a link >= k or the tool
Moved(skip, x) == x = TOOL \/ (x \in Links /\ x \notin skip)
MustCheck(cfg, skip) == {p \in Relevant(cfg) : ~Exempt(cfg, p) /\ (Moved(skip, p[1]) \/ Moved(skip, p[2]))}
TasksOk(cfg, skip, tasks) == MustCheck(cfg, skip) \subseteq tasks /\ tasks \subseteq Relevant(cfg)

\* C14: with a collision-free initial vector, checking MustCheck after moving joint k decides the full check:
\* pairs of two unmoved bodies keep their (free) verdict.
OffsetsEquivalence(cfg, skip, geoBefore, geoAfter) ==
  (Expected(cfg, geoBefore) = {} /\
   \A p \in Relevant(cfg) : (~Moved(skip, p[1]) /\ ~Moved(skip, p[2])) => geoAfter[p] = geoBefore[p])
  => ((Expected(cfg, geoAfter) = {}) <=> (Expected(cfg, geoAfter) \cap MustCheck(cfg, skip) = {}))
=============================================================================
