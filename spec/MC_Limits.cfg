SPECIFICATION Spec
CONSTANTS NN = 24
          RR = 48
INVARIANTS ImplIsArc TurnInvariant FullTurn CentreAccepted SampleOnArc
CHECK_DEADLOCK FALSE
