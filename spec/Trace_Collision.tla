--------------------------- MODULE Trace_Collision ---------------------------
(***************************************************************************)
(* Trace specification for collision verdicts (C10) and single-joint       *)
(* offsets (C14), binding B2.  Every event carries the brute-force         *)
(* distance (um) and intersection flag of ALL body pairs, the safety       *)
(* configuration and what the library reported; TLC computes the expected  *)
(* verdict with module Collision (Relevant, Rmin, Exempt, Expected) and    *)
(* arc membership with module Limits.                                      *)
(***************************************************************************)
EXTENDS Collision, Limits, TLC, Json, IOUtils

Rec == ndJsonDeserialize(IOEnv.TRACE)
VARIABLE l

ToSet(s) == {s[i] : i \in DOMAIN s}
CfgOf(e) == [tool |-> e.tool, base |-> e.base, nenv |-> e.nenv,
             table |-> {<<t[1], t[2], t[3]>> : t \in ToSet(e.table)}, def_env |-> e.def_env, def_robot |-> e.def_robot]
GeoOf(e) == [p \in Relevant(CfgOf(e)) |->
               LET x == CHOOSE y \in ToSet(e.pairs) : y.a = p[1] /\ y.b = p[2] IN [d |-> x.d, touch |-> x.touch]]
ReportOf(e) == {<<r[1], r[2]>> : r \in ToSet(e.report)}

JudgeCollision(e) ==
  IF e.outcome # "ok" THEN {"C10:panic"} ELSE
  LET cfg == CfgOf(e)  geo == GeoOf(e)  rep == ReportOf(e) IN
  (IF rep \ Relevant(cfg) # {} THEN {"C10:irrelevant-pair-reported"} ELSE {})
  \cup (IF \E p \in rep \cap Relevant(cfg) : Exempt(cfg, p) THEN {"C10:exempt-pair-reported"} ELSE {})
  \cup (IF e.mode = "all" /\ Sure(cfg, geo) \ rep # {} THEN {"C10:colliding-pair-not-reported"} ELSE {})
  \cup (IF (rep \cap Relevant(cfg)) \ Possible(cfg, geo) # {} THEN {"C10:free-pair-reported"} ELSE {})
  \cup (IF e.mode = "first" /\ Cardinality(rep) > 1 THEN {"C10:first-mode-reports-several"} ELSE {})
  \cup (IF e.mode = "first" /\ Sure(cfg, geo) # {} /\ rep = {} THEN {"C10:first-mode-misses-collision"} ELSE {})
  \cup (IF e.mode = "nocheck" /\ rep # {} THEN {"C10:nocheck-reports"} ELSE {})
  \cup (IF e.api = "collision_details" /\ ~CollidesOk(cfg, geo, e.mode, e.verdict) THEN {"C10:collides-verdict-wrong"} ELSE {})

JudgeOffsets(e) ==
  IF e.outcome # "ok" THEN {"C14:panic"} ELSE
  LET legal(c) == OnArcVec(e.from, e.to, c.q, N_AU)
      decided(c) == EndDistVec(e.from, e.to, c.q, N_AU) >= BandLim
      must == {i \in 1..Len(e.cands) : decided(e.cands[i]) /\ legal(e.cands[i]) /\ ~e.cands[i].collides}
      may  == {i \in 1..Len(e.cands) : (~decided(e.cands[i]) \/ legal(e.cands[i])) /\ ~e.cands[i].collides}
      off == ToSet(e.offered)
  IN (IF 0 \in off THEN {"C14:offered-vector-is-not-a-single-joint-replacement"} ELSE {})
     \cup (IF \E i \in off \ {0} : e.cands[i].collides THEN {"C14:colliding-offset-offered"} ELSE {})
     \cup (IF \E i \in off \ {0} : decided(e.cands[i]) /\ ~legal(e.cands[i]) THEN {"C14:out-of-limits-offset-offered"} ELSE {})
     \cup (IF must \ off # {} THEN {"C14:free-legal-offset-withheld"} ELSE {})
     \cup (IF Len(e.offered) # Cardinality(off) THEN {"C14:offset-offered-twice"} ELSE {})

Judge(e) ==
  CASE e.ev = "collision" -> JudgeCollision(e)
    [] e.ev = "offsets" -> JudgeOffsets(e)
    [] OTHER -> {"unknown-event"}

Init == l = 1
Next ==
  /\ l <= Len(Rec)
  /\ LET bad == Judge(Rec[l]) IN bad = {} \/ PrintT(ToJson([tag |-> "viol", l |-> l, clause |-> bad]))
  /\ TLCSet(1, l)
  /\ l' = l + 1
Spec == Init /\ [][Next]_l
Post == PrintT(ToJson([tag |-> "done", n |-> IF Len(Rec) = 0 THEN 0 ELSE TLCGet(1)]))
=============================================================================
