----------------------------- MODULE MC_Stroke -----------------------------
(* Bounded instance of module Stroke: 2 strategies, poses LAND TRACE LIN PARK (3 windows), every oracle outcome. *)
EXTENDS Stroke
MCKinds == <<"LAND", "TRACE", "LIN", "PARK">>
=============================================================================
