----------------------------- MODULE Gen_Frame3 -----------------------------
(***************************************************************************)
(* Frame from three point pairs (C17): bounded model + generator.          *)
(* Integer point triples are moved by exact lattice rigid motions; the     *)
(* frame constructed from (P, M(P)) must be M.  Collinearity is decided by *)
(* the exact integer cross product.  Actions: choose the triple, choose    *)
(* the rotation (two lattice rotations composed), choose the translation.  *)
(***************************************************************************)
EXTENDS Lattice, TLC, Json

CONSTANTS K1, K2    \* lattice angle index sets of the two composed rotations

Triples == <<
  << <<0, 0, 0>>, <<10, 0, 0>>, <<0, 10, 0>> >>,
  << <<3, 1, 2>>, <<7, -2, 5>>, <<-1, 4, 9>> >>,
  << <<1000, 2000, -1500>>, <<1040, 2010, -1500>>, <<1000, 2030, -1480>> >>,   \* far from the origin
  << <<0, 0, 0>>, <<100, 0, 0>>, <<50, 1, 0>> >>,                              \* nearly collinear
  << <<-5, -5, -5>>, <<20, 0, 3>>, <<0, 30, -4>> >>,
  << <<0, 0, 0>>, <<1, 1, 1>>, <<3, 3, 3>> >>,                                 \* collinear
  << <<2, 0, 0>>, <<2, 0, 0>>, <<0, 5, 0>> >>,                                 \* two coincident points
  << <<0, 0, 0>>, <<4000, 0, 0>>, <<2000, 1, 0>> >>                            \* a needle: 1 unit off a 4000 unit edge
>>
Shifts == << <<0, 0, 0>>, <<100, -200, 50>>, <<-3, 7, 11>> >>

VARIABLES tri, rot, sh, stage
vars == <<tri, rot, sh, stage>>
Init == tri \in 1..Len(Triples) /\ rot = IdIso /\ sh = 1 /\ stage = 0
ChooseRot(k1, k2) == stage = 0 /\ rot' = Compose(RotIso("z", k1), RotIso("x", k2)) /\ stage' = 1 /\ UNCHANGED <<tri, sh>>
ChooseShift(s) == stage = 1 /\ sh' = s /\ stage' = 2 /\ UNCHANGED <<tri, rot>>
Next == (\E k1 \in K1, k2 \in K2 : ChooseRot(k1, k2)) \/ (\E s \in 1..Len(Shifts) : ChooseShift(s))
Spec == Init /\ [][Next]_vars

Motion == Compose(Trans(Shifts[sh][1], Shifts[sh][2], Shifts[sh][3]), rot)
\* image of an integer point: numerator vector with scale 5^Motion.n
Image(m, pt) == VecAdd(MatVec(m.R, pt), m.t)

Collinear(t) == Cross(VecSub(t[2], t[1]), VecSub(t[3], t[1])) = <<0, 0, 0>>

\* model sanity: a rigid motion preserves squared distances (scaled by 25^n)
Dist2(u, v) == Dot(VecSub(u, v), VecSub(u, v))
\* (not for the needle: its squared lengths times 25^n leave TLC's 32-bit integers)
Rigid == (stage = 2 /\ tri # 8) =>
  LET m == Motion  t == Triples[tri] IN
  \A i, j \in 1..3 : Dist2(Image(m, t[i]), Image(m, t[j])) = Pow5(m.n) * Pow5(m.n) * Dist2(t[i], t[j])

Emit == stage = 2 =>
  LET m == Motion  t == Triples[tri] IN
  PrintT(ToJson([gen |-> "frame3", tri |-> tri, p |-> t, q |-> [i \in 1..3 |-> Image(m, t[i])], qn |-> m.n,
                 motion |-> m, collinear |-> Collinear(t)]))
=============================================================================
