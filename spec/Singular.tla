------------------------------ MODULE Singular ------------------------------
(***************************************************************************)
(* Wrist singularity (C05).  A configuration is wrist-singular exactly     *)
(* when the axes of joints 4 and 6 are collinear, i.e. when the GEOMETRIC  *)
(* joint 5 angle g5 = sign5 * q5 - offset5 is within the documented band   *)
(* (0.01 degree) of a multiple of pi, on either side.                      *)
(* Angles in AU (1e-4 degree): band = 100 AU.                              *)
(***************************************************************************)
EXTENDS Units

BAND_AU == 100
\* distance of g5 from the nearest multiple of half a turn
OffSingular(g5) == CircDist(g5, 0, HALF_AU)
Singular(g5) == OffSingular(g5) < BAND_AU
\* J5 = 0 kind (J4 and J6 turn the same way) or J5 = pi kind (opposite ways)
ZeroKind(g5) == CircDist(g5, 0, N_AU) < BAND_AU

\* ---- continuity at the singularity (contract of inverse_continuing) ---------------------
\* c: [prev, truth (the singular posture itself: its J1..J3 and J5 are those of the recovered answer), first, sens_nrad, other_singular, s46_equal, w16, answers(AU), arm(AU prefix of truth),
\*     realised, kind]
SENS_BOUND == 250      \* nrad: arm sensitivity to the solver's 0.125 um probing shift
EQ == 3
SameVec(u, v) == \A j \in 1..6 : Abs(u[j] - v[j]) <= EQ

Continuity(c) ==
  \* (the documented cost is the distance to previous when the sorting weight is 0 - or when the range centres are the
  \*  previous position itself, as for the sentinel; c.w16 = 0 or c.centred)
  (IF c.realised /\ c.kind = "zero" /\ c.sens_nrad < SENS_BOUND /\ ~c.other_singular /\ (c.w16 = 0 \/ c.centred) /\
      (c.answers = <<>> \/ ~SameVec(c.answers[1], c.prev))
   THEN {"C05:first-answer-is-not-previous"} ELSE {})
  \cup
  \* some answer on the previous arm branch moves J4 and J6 by the same amount
  (IF c.kind = "zero" /\ c.sens_nrad < SENS_BOUND /\ ~c.other_singular /\ c.s46_equal /\
      ~\E i \in 1..Len(c.answers) :
          /\ \A j \in {1, 2, 3, 5} : Abs(c.answers[i][j] - c.truth[j]) <= 30
          /\ Abs((c.answers[i][4] - c.prev[4]) - (c.answers[i][6] - c.prev[6])) <= 2 * EQ
   THEN {"C05:j4-j6-not-moved-together"} ELSE {})
=============================================================================
