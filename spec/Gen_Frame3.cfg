SPECIFICATION Spec
CONSTANTS K1 = {0, 1, 3, 5, 6, 8, 9, 10}
          K2 = {0, 1, 3, 6, 10}
INVARIANTS Rigid Emit
CHECK_DEADLOCK FALSE
