SPECIFICATION Spec
CONSTANTS NN = 24
          RR = 24
INVARIANT LegacyOk
CHECK_DEADLOCK FALSE
