---------------------------- MODULE Gen_Singular ----------------------------
(***************************************************************************)
(* Scenario lattice with expected verdicts for singularity detection (C05, *)
(* binding B1): every multiple of pi k in -4..4, either side, depths       *)
(* inside / outside the 0.01 degree band (kept 10 % away from its edge),   *)
(* either sign of joint 5, offset classes, bare and wrapped robots (tool,   *)
(* base, a parallelogram coupling, a coupling that acts on joint 5).      *)
(***************************************************************************)
EXTENDS Singular, TLC, Json

Depths == {0, 1, 50, 90, 110, 200, 20000, 450000, 900000}
VARIABLES k, side, depth, s5, off, wrapk
vars == <<k, side, depth, s5, off, wrapk>>
Init == /\ k \in -4..4 /\ side \in {-1, 1} /\ depth \in Depths /\ s5 \in {-1, 1}
        /\ off \in {"zero", "quarter", "random"} /\ wrapk \in {"bare", "tool", "base+tool", "pgram", "pgram-j5"}
Next == UNCHANGED vars
Spec == Init /\ [][Next]_vars

G5 == k * HALF_AU + side * depth
Emit == PrintT(ToJson([gen |-> "singular", g5 |-> G5, k |-> k, depth |-> side * depth, sign5 |-> s5, off |-> off,
                       stack |-> wrapk, expect |-> Singular(G5), zero_kind |-> ZeroKind(G5)]))
\* sanity of the model: the verdict has period half a turn and is symmetric
Symmetric == Singular(G5) = Singular(-G5) /\ Singular(G5) = Singular(G5 + HALF_AU)
=============================================================================
