SPECIFICATION Spec
CONSTANTS NN = 24
          RR = 24
INVARIANTS SampleOnArc
CHECK_DEADLOCK FALSE
