SPECIFICATION Spec
CONSTANTS Grid = 7
          MaxTry = 2
          MaxBlocked = 1
INVARIANTS PathOK CancelOK TreesFree Emit
CHECK_DEADLOCK FALSE
