----------------------------- MODULE Trace_Shape -----------------------------
(***************************************************************************)
(* Trace specification for collision-aware inverse kinematics (C11,        *)
(* binding B2).  One event = one inverse entry point of a robot with shape *)
(* together with the same call on its underlying kinematic stack (public   *)
(* field) and the collision verdict of every underlying answer.  The       *)
(* action FilteredInverse of the specification returns exactly the         *)
(* sub-sequence of non-colliding answers, in unchanged order.              *)
(***************************************************************************)
EXTENDS Integers, Sequences, TLC, Json, IOUtils
Rec == ndJsonDeserialize(IOEnv.TRACE)
VARIABLE l

\* the specification: keep the answers that are not colliding, in order
FilterFree(inner, coll) ==
  LET RECURSIVE F(_)
      F(i) == IF i > Len(inner) THEN <<>> ELSE (IF coll[i] THEN <<>> ELSE <<inner[i]>>) \o F(i + 1)
  IN F(1)

Judge(e) ==
  IF e.outcome # "ok" THEN {"C11:panic"} ELSE
  (IF e.outer # FilterFree(e.inner, e.collides) THEN
      (IF \E i \in 1..Len(e.outer) : \E k \in 1..Len(e.inner) : e.outer[i] = e.inner[k] /\ e.collides[k]
         THEN {"C11:colliding-solution-returned"} ELSE {})
      \cup (IF \E k \in 1..Len(e.inner) : ~e.collides[k] /\ ~\E i \in 1..Len(e.outer) : e.outer[i] = e.inner[k]
              THEN {"C11:free-solution-dropped"} ELSE {})
      \cup {"C11:not-the-ordered-subsequence"}
   ELSE {})
  \cup (IF ~e.outer_exact_subsequence THEN {"C11:answers-altered"} ELSE {})
  \cup (IF e.collides # e.collides_body THEN {"C11:collides-differs-from-body-verdict"} ELSE {})
  \cup (IF ~e.details_same THEN {"C11:collision-details-differ-from-body-report"} ELSE {})
  \cup (IF ~e.near_same THEN {"C11:near-differs-from-body-report"} ELSE {})
  \* with collision checking switched off (CheckMode::NoCheck) nothing collides and nothing is filtered
  \cup (IF ~e.checking /\ (\E k \in 1..Len(e.collides) : e.collides[k]) THEN {"C11:collision-reported-although-checking-is-off"} ELSE {})
  \cup (IF ~e.checking /\ e.outer # e.inner THEN {"C11:answers-filtered-although-checking-is-off"} ELSE {})
  \* what is returned still solves the requested pose (1 micrometre, 1 microradian: nm / nrad from the oracle)
  \cup (IF e.outer_n > 1001 THEN {"C11:answer-misses-pose"} ELSE {})
  \cup (IF e.fwd_n > 2 THEN {"C11:forward-differs-from-stack"} ELSE {})
  \cup (IF e.links_n > 2 THEN {"C11:link-poses-differ-from-stack"} ELSE {})
  \cup (IF ~e.limits_same THEN {"C11:limits-differ-from-stack"} ELSE {})
  \cup (IF ~e.sing_same THEN {"C11:singularity-differs-from-stack"} ELSE {})
  \cup (IF ~e.positioned_ok THEN {"C11:positioned-robot-not-at-link-poses"} ELSE {})

Init == l = 1
Next ==
  /\ l <= Len(Rec)
  /\ LET bad == Judge(Rec[l]) IN bad = {} \/ PrintT(ToJson([tag |-> "viol", l |-> l, clause |-> bad]))
  /\ TLCSet(1, l)
  /\ l' = l + 1
Spec == Init /\ [][Next]_l
Post == PrintT(ToJson([tag |-> "done", n |-> IF Len(Rec) = 0 THEN 0 ELSE TLCGet(1)]))
=============================================================================
