SPECIFICATION Spec
CONSTANTS NC = 1
INVARIANTS AllInLimits AtMostOneRecovered KeepsPlain Sound
CHECK_DEADLOCK FALSE
