SPECIFICATION Spec
CONSTANTS NStrat = 2
          Kinds <- MCKinds
INVARIANTS RaceOK GrammarOK OrderOK
CHECK_DEADLOCK FALSE
