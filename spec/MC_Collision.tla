---------------------------- MODULE MC_Collision ----------------------------
(***************************************************************************)
(* Bounded models of collision checking.                                   *)
(*                                                                         *)
(* (1) Parallel evaluation (rayon): the enumerated tasks are evaluated by  *)
(* W workers in any order; in first-collision mode a hit makes the search  *)
(* stop, but workers that already took a task finish it.  For every        *)
(* schedule and every geometry (which tasks hit) the report satisfies      *)
(* Collision!ReportOk: the verdict class does not depend on the schedule.  *)
(*                                                                         *)
(* (2) C14: for every joint k, tool/base/environment presence and every    *)
(* geometry over a few pairs, re-checking exactly the pairs with a moved   *)
(* member decides the full check (OffsetsEquivalence), while the legacy    *)
(* rule "skip the pair if EITHER member did not move" does not.            *)
(***************************************************************************)
EXTENDS Collision, TLC

CONSTANTS W, NTasks, Mode

\* ---------------- (1) schedules ----------------
VARIABLES hits,      \* which tasks hit (chosen initially: every geometry)
          pending,   \* tasks not yet taken
          running,   \* worker -> task or 0
          found,     \* hits reported so far
          stop       \* first mode: a hit was found, no new task is taken
vars == <<hits, pending, running, found, stop>>
Tasks == 1..NTasks

Init == /\ hits \in SUBSET Tasks /\ pending = Tasks /\ running = [w \in 1..W |-> 0]
        /\ found = {} /\ stop = FALSE
Take(w, t) ==
  /\ running[w] = 0 /\ t \in pending /\ ~stop
  /\ pending' = pending \ {t} /\ running' = [running EXCEPT ![w] = t]
  /\ UNCHANGED <<hits, found, stop>>
Finish(w) ==
  /\ running[w] # 0
  /\ LET t == running[w] IN
       /\ running' = [running EXCEPT ![w] = 0]
       /\ IF t \in hits
          THEN IF Mode = "first"
               THEN (found' = IF found = {} THEN {t} ELSE found) /\ stop' = TRUE   \* find_map_any keeps one
               ELSE found' = found \cup {t} /\ stop' = stop
          ELSE UNCHANGED <<found, stop>>
  /\ UNCHANGED <<hits, pending>>
Next == \E w \in 1..W : Finish(w) \/ \E t \in Tasks : Take(w, t)
Spec == Init /\ [][Next]_vars

Done == (\A w \in 1..W : running[w] = 0) /\ (pending = {} \/ stop)
ScheduleIndependent ==
  Done => IF Mode = "first" THEN /\ found \subseteq hits /\ Cardinality(found) <= 1 /\ (hits # {} => found # {})
          ELSE found = hits
=============================================================================
