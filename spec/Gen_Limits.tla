----------------------------- MODULE Gen_Limits -----------------------------
(***************************************************************************)
(* Behaviour generator for the joint-limit model (binding B1, C07).        *)
(* For every (from, to) on the lattice TLC prints the exact acceptance     *)
(* verdict of every point of the half-step lattice -2RR..2RR (even index = *)
(* lattice angle, odd index = any angle strictly between two lattice       *)
(* angles): 1 accept, 0 reject, 2 don't care (ambiguous limits) and 3 =    *)
(* exact arc end (accepted by the definition; demanded from the float      *)
(* implementation only where its arithmetic is exact).  The harness        *)
(* replays every line into Constraints::new / from_degrees / update_range. *)
(***************************************************************************)
EXTENDS Limits, TLC, Json

CONSTANTS NN, RR

VARIABLES f, t

Init == f \in -RR..RR /\ t \in -RR..RR
Next == UNCHANGED <<f, t>>
Spec == Init /\ [][Next]_<<f, t>>

Verdict(h) ==
  IF Ambiguous(f, t, NN) THEN 2
  ELSE IF IsEnd(2 * f, 2 * t, h, 2 * NN) THEN 3
  ELSE IF OnArc(2 * f, 2 * t, h, 2 * NN) THEN 1 ELSE 0

Emit ==
  PrintT(ToJson([gen |-> "limits", f |-> f, t |-> t, n |-> NN, r |-> RR,
                 acc2 |-> [i \in 1..(4 * RR + 1) |-> Verdict(i - 1 - 2 * RR)]]))
=============================================================================
