SPECIFICATION Spec
POSTCONDITION Post
CHECK_DEADLOCK FALSE
