------------------------------ MODULE Gen_Urdf ------------------------------
(***************************************************************************)
(* URDF extraction (C20): layout lattice.  A robot description is six      *)
(* revolute joints whose <origin xyz> vectors carry the OPW parameters.    *)
(* The supported layouts differ in which component carries which           *)
(* parameter; this module is the source of truth for that mapping: for     *)
(* every layout it prints, per joint, the three components as symbols      *)
(* ("0", "c1", "a1", "c2", "b", "-a2", "c3", "c4"), and the harness fills  *)
(* in numbers, renders the XML and expects the extraction to return the    *)
(* numbers it started from.  Syntactic dimensions (limit syntax, joint     *)
(* order, nesting, naming, duplicates) are chosen by further actions.      *)
(***************************************************************************)
EXTENDS Integers, Sequences, TLC, Json

C2Axes == {"z", "x"}            \* c2 along z (Fanuc, ABB) or along x (KUKA)
BPlaces == {"none", "j3"}       \* b (if any) is the y component of joint 3
C3Places == {"j5x", "j5z", "j4x", "j4y"}   \* c3 on joint 5 (x or z) or together with -a2 on joint 4
C4Axes == {"x", "z"}
LimitSyntaxes == {"radians", "xacro-degrees", "absent", "mixed"}
Orders == {"natural", "reversed", "shuffled"}
Nestings == {0, 1, 2}
Namings == {"plain", "prefix-upper", "underscore", "kuka-a", "literal-prefix-a", "literal-prefix", "unicode-prefix", "mixed", "explicit"}
Copies == {"single", "identical-duplicate", "duplicate-other-prefix", "second-robot"}

VARIABLES lay, syn, stage
vars == <<lay, syn, stage>>
Init == stage = 0 /\ lay = <<>> /\ syn = <<>>
ChooseLayout(c2, b, c3, c4) == stage = 0 /\ stage' = 1 /\ lay' = <<c2, b, c3, c4>> /\ UNCHANGED syn
ChooseSyntax(li, o, n, nm, cp) ==
  /\ stage = 1 /\ stage' = 2 /\ syn' = <<li, o, n, nm, cp>> /\ UNCHANGED lay
  /\ (cp = "second-robot" => nm = "explicit")      \* a different second robot needs explicit joint names
Next == (\E c2 \in C2Axes, b \in BPlaces, c3 \in C3Places, c4 \in C4Axes : ChooseLayout(c2, b, c3, c4))
        \/ (\E li \in LimitSyntaxes, o \in Orders, n \in Nestings, nm \in Namings, cp \in Copies : ChooseSyntax(li, o, n, nm, cp))
Spec == Init /\ [][Next]_vars

Vec(x, y, z) == <<x, y, z>>
Origins(l) ==
  LET c2 == l[1]  b == l[2]  c3 == l[3]  c4 == l[4]
      by == IF b = "j3" THEN "b" ELSE "0"
  IN << Vec("0", "0", "c1"),
        Vec("a1", "0", "0"),
        IF c2 = "z" THEN Vec("0", by, "c2") ELSE Vec("c2", by, "0"),
        CASE c3 = "j4x" -> Vec("c3", "0", "-a2") [] c3 = "j4y" -> Vec("0", "c3", "-a2") [] OTHER -> Vec("0", "0", "-a2"),
        CASE c3 = "j5x" -> Vec("c3", "0", "0") [] c3 = "j5z" -> Vec("0", "0", "c3") [] OTHER -> Vec("0", "0", "0"),
        IF c4 = "x" THEN Vec("c4", "0", "0") ELSE Vec("0", "0", "c4") >>

\* every parameter symbol occurs exactly once in a layout (b only when placed)
Count(l, s) == LET o == Origins(l) IN
  LET RECURSIVE N(_, _) N(i, k) == IF i > 6 THEN 0 ELSE (IF k > 3 THEN N(i + 1, 1) ELSE (IF o[i][k] = s THEN 1 ELSE 0) + N(i, k + 1)) IN N(1, 1)
WellFormed == stage >= 1 =>
  /\ \A s \in {"c1", "a1", "c2", "-a2", "c3", "c4"} : Count(lay, s) = 1
  /\ Count(lay, "b") = IF lay[2] = "j3" THEN 1 ELSE 0

Emit == stage = 2 =>
  PrintT(ToJson([gen |-> "urdf", origins |-> Origins(lay), c2axis |-> lay[1], b |-> lay[2], c3 |-> lay[3], c4axis |-> lay[4],
                 limits |-> syn[1], order |-> syn[2], nesting |-> syn[3], naming |-> syn[4], copies |-> syn[5],
                 needs_a2 |-> lay[3] \in {"j4x", "j4y"}, needs_b |-> lay[2] = "j3"]))
=============================================================================
