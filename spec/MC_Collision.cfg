SPECIFICATION Spec
CONSTANTS W = 3
          NTasks = 4
          Mode = "first"
INVARIANT ScheduleIndependent
CHECK_DEADLOCK FALSE
