------------------------------ MODULE Gen_Pgram ------------------------------
(***************************************************************************)
(* Parallelogram coupling (C16), bounded model + behaviour generator.      *)
(* A coupling [d, c, s2] (driven joint d, coupled joint c # d, scaling     *)
(* s2/2) makes the wrapped robot see joint c reduced by scaling times      *)
(* joint d.  On the lattice this is exact when the driven angle is a       *)
(* multiple of 90 degrees and scaling * (driven / 90deg) is an integer.    *)
(* One action per coupling layer (`Couple' wraps a new OUTER coupling);    *)
(* the state carries the joint vector the leaf sees.  For every state the  *)
(* exact link poses of the leaf at the reduced vector are printed; the     *)
(* harness builds the same Parallelogram stack around the real solver.     *)
(***************************************************************************)
EXTENDS OpwChain, TLC, Json

CONSTANTS MaxDepth
Scalings2 == {-4, -2, -1, 1, 2, 4}   \* scaling * 2

Params == [a1 |-> 3, a2 |-> -1, b |-> 1, c1 |-> 9, c2 |-> 11, c3 |-> 12, c4 |-> 2]
Configs == << <<3, 1, 4, 0, 6, 10>>, <<0, 6, 1, 9, 3, 5>>, <<6, 3, 10, 6, 1, 0>>, <<9, 9, 3, 2, 0, 6>> >>

VARIABLES cfg, layers, inner    \* layers: OUTERMOST FIRST; inner: what the leaf sees
vars == <<cfg, layers, inner>>

Quarter(k) == k % 3 = 0
Exact(e, L) == Quarter(e[L.d]) /\ (L.s2 * (e[L.d] \div 3)) % 2 = 0
\* Angle indices are NOT reduced modulo a turn here: with a non-integer scaling the coupled joint depends on the
\* actual value of the driven joint (-180 and +180 degrees differ), exactly as in the code; k \div 3 is the (floor)
\* number of quarter turns of index k and C5/S5 accept any integer index.
Reduce1(e, L) == [e EXCEPT ![L.c] = e[L.c] - 3 * ((L.s2 * (e[L.d] \div 3)) \div 2)]

\* the vector seen below a stack of couplings: the outermost coupling acts first
RECURSIVE Below(_, _)
Below(e, ls) == IF ls = <<>> THEN e ELSE Below(Reduce1(e, Head(ls)), Tail(ls))
RECURSIVE AllExact(_, _)
AllExact(e, ls) == IF ls = <<>> THEN TRUE ELSE Exact(e, Head(ls)) /\ AllExact(Reduce1(e, Head(ls)), Tail(ls))

Init == cfg \in 1..Len(Configs) /\ layers = <<>> /\ inner = Configs[cfg]
Couple(L) ==
  /\ Len(layers) < MaxDepth
  /\ AllExact(Configs[cfg], <<L>> \o layers)
  /\ layers' = <<L>> \o layers
  /\ inner' = Below(Configs[cfg], <<L>> \o layers)
  /\ UNCHANGED cfg
Next == \E d \in 1..6, c \in 1..6, s2 \in Scalings2 : d # c /\ Couple([d |-> d, c |-> c, s2 |-> s2])
Spec == Init /\ [][Next]_vars

\* the model's own consistency: undoing the couplings innermost first restores the outer vector
Undo1(x, L) == [x EXCEPT ![L.c] = x[L.c] + 3 * ((L.s2 * (x[L.d] \div 3)) \div 2)]
RECURSIVE Above(_, _)
Above(x, ls) == IF ls = <<>> THEN x ELSE Undo1(Above(x, Tail(ls)), Head(ls))
RoundTrip == Above(inner, layers) = Configs[cfg]

Emit == PrintT(ToJson([gen |-> "pgram", layers |-> layers, e |-> Configs[cfg], inner_e |-> inner, p |-> Params,
                       links |-> LinkPoses(Params, inner)]))
=============================================================================
