--------------------------- MODULE Trace_Singular ---------------------------
(***************************************************************************)
(* Trace specification for C05 (binding B3).                               *)
(*  sing events: the library's verdict against the geometric angle between *)
(*     the J4 and J6 axes of the independent link model (nrad), outside a  *)
(*     10 % margin around the band edge;                                   *)
(*  cont events: continuity of J4/J6 at exactly singular poses (Singular   *)
(*     !Continuity).                                                       *)
(***************************************************************************)
EXTENDS Singular, TLC, Json, IOUtils

Rec == ndJsonDeserialize(IOEnv.TRACE)
VARIABLE l

BAND_NRAD == 174533   \* 0.01 degree
JudgeSing(e) ==
  IF e.axis_nrad < (BAND_NRAD * 9) \div 10 /\ ~e.reported THEN {"C05:collinear-axes-not-reported"}
  ELSE IF e.axis_nrad > (BAND_NRAD * 11) \div 10 /\ e.reported THEN {"C05:reported-although-axes-not-collinear"}
  ELSE {}

Judge(e) ==
  CASE e.ev = "sing" -> JudgeSing(e)
    [] e.ev = "cont" -> IF e.outcome = "panic" THEN {"C05:panic"} ELSE Continuity(e)
    [] OTHER -> {"unknown-event"}

Init == l = 1
Next ==
  /\ l <= Len(Rec)
  /\ LET bad == Judge(Rec[l]) IN bad = {} \/ PrintT(ToJson([tag |-> "viol", l |-> l, clause |-> bad]))
  /\ TLCSet(1, l)
  /\ l' = l + 1
Spec == Init /\ [][Next]_l
Post == PrintT(ToJson([tag |-> "done", n |-> IF Len(Rec) = 0 THEN 0 ELSE TLCGet(1)]))
=============================================================================
