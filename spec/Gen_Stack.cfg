SPECIFICATION Spec
CONSTANTS MaxDepth = 2
          Kinds = {"Tool", "Frame", "Base"}
          Isos = {1, 2, 3}
          Leafs = {1, 2}
INVARIANTS RoundTripOk LastLinkOk EntryKept Emit
CHECK_DEADLOCK FALSE
