---------------------------- MODULE Trace_Limits ----------------------------
(***************************************************************************)
(* Trace specification for joint limits and the sampler (bindings B2 for   *)
(* C07 and C18).  Events are recorded from the real code by the harness,   *)
(* angles are integers in AU (1e-4 degree); TLC itself evaluates arc       *)
(* membership with `OnArc'.  The spec never blocks: every event is         *)
(* consumed, offending events are printed.                                 *)
(*                                                                         *)
(* events:                                                                 *)
(*  compliant {from[6], to[6], a[6], acc, ctor}  Constraints::compliant    *)
(*  filter    {from[6], to[6], list[[6]..], kept[idx..]} Constraints::filter*)
(*  centre    {from[6], to[6], c[6], acc}  compliant(centers)              *)
(*  sample    {from[6], to[6], a[6] | outcome="panic", acc}  random_angles *)
(***************************************************************************)
EXTENDS Limits, TLC, Json, IOUtils

Rec == ndJsonDeserialize(IOEnv.TRACE)

VARIABLE l

BAND == 3   \* AU; closer than this to an arc end either verdict is accepted

Decided(e, q) == ~AmbiguousVec(e.from, e.to, N_AU) /\ EndDistVec(e.from, e.to, q, N_AU) >= BAND

JudgeCompliant(e) ==
  IF Decided(e, e.a) /\ e.acc # OnArcVec(e.from, e.to, e.a, N_AU)
  THEN {"compliant-differs-from-arc-membership"} ELSE {}

JudgeFilter(e) ==
  LET idx == {i \in 1..Len(e.list) : Decided(e, e.list[i])}
      want == {i \in idx : OnArcVec(e.from, e.to, e.list[i], N_AU)}
      kept == {e.kept[i] : i \in 1..Len(e.kept)}
      sorted == \A i \in 1..(Len(e.kept) - 1) : e.kept[i] < e.kept[i + 1]
  IN (IF kept \cap idx # want THEN {"filter-differs-from-arc-membership"} ELSE {})
     \cup (IF ~sorted THEN {"filter-reorders"} ELSE {})

JudgeCentre(e) ==
  IF ~AmbiguousVec(e.from, e.to, N_AU) /\ ~e.acc THEN {"centre-rejected"}
  ELSE IF Decided(e, e.c) /\ ~OnArcVec(e.from, e.to, e.c, N_AU) THEN {"centre-off-arc"}
  ELSE {}

\* A sample must be accepted by the same constraints (e.acc is the library's own verdict)
\* and must lie on the arc as TLC computes it; a panic is allowed only when some joint has
\* an ambiguous (zero-width) wrap-around range.
JudgeSample(e) ==
  IF e.outcome = "panic"
  THEN (IF AmbiguousVec(e.from, e.to, N_AU) THEN {} ELSE {"sampler-panics"})
  \* (e.edge: the sample is within 1e-14 rad of an end of its arc, where the rounding of centre and half-width
  \*  decides the library's verdict - arc ends are don't-care everywhere)
  ELSE (IF ~e.acc /\ ~e.edge /\ ~AmbiguousVec(e.from, e.to, N_AU) THEN {"sample-rejected-by-compliant"} ELSE {})
       \cup (IF Decided(e, e.a) /\ ~OnArcVec(e.from, e.to, e.a, N_AU)
             THEN {"sample-off-arc"} ELSE {})

\* random real limits probed 1e-9 rad beside an arc end: the side is known by construction
JudgeNearEnd(e) ==
  IF e.acc # (e.side = "inside") THEN {"verdict-wrong-1e-9-beside-an-arc-end"} ELSE {}

Judge(e) ==
  CASE e.ev = "compliant" -> JudgeCompliant(e)
    [] e.ev = "near-end"  -> JudgeNearEnd(e)
    [] e.ev = "filter"    -> JudgeFilter(e)
    [] e.ev = "centre"    -> JudgeCentre(e)
    [] e.ev = "sample"    -> JudgeSample(e)
    [] OTHER              -> {"unknown-event"}

Init == l = 1
Next ==
  /\ l <= Len(Rec)
  /\ LET bad == Judge(Rec[l]) IN
       bad = {} \/ PrintT(ToJson([tag |-> "viol", l |-> l, clause |-> bad, ev |-> Rec[l].ev]))
  /\ TLCSet(1, l)
  /\ l' = l + 1
Spec == Init /\ [][Next]_l

Post == PrintT(ToJson([tag |-> "done", n |-> IF Len(Rec) = 0 THEN 0 ELSE TLCGet(1)]))
=============================================================================
