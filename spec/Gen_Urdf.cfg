SPECIFICATION Spec
INVARIANTS WellFormed Emit
CHECK_DEADLOCK FALSE
