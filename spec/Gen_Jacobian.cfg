SPECIFICATION Spec
CONSTANTS PSets = {1, 2, 4}
          Angles = {0, 1, 3, 10}
CONSTRAINT AtMostThreeGeneric
INVARIANTS UnitAxes EmitJac
CHECK_DEADLOCK FALSE
