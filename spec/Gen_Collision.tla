---------------------------- MODULE Gen_Collision ----------------------------
(***************************************************************************)
(* Configurations for the task-enumeration binding (hook H3; C10 and C14): *)
(* presence of tool and base, number of environment objects, and a safety  *)
(* table built by adding up to MaxEntries entries (action AddEntry) from a *)
(* candidate list that contains reversed keys, pairs naming J1, tool and   *)
(* base pairs, an environment pair and a positive (non-exempt) distance.   *)
(* For every configuration TLC prints the pairs that must be evaluated     *)
(* when joints 0..k-1 did not move (k = 0: full check), and the relevant   *)
(* pairs (upper bound of what may be evaluated).                           *)
(***************************************************************************)
EXTENDS Collision, TLC, Json

CONSTANTS MaxEntries

Candidates == <<
  <<0, 2, NEVER_UM>>, <<4, 2, NEVER_UM>>, <<0, TOOL, NEVER_UM>>, <<3, BASE, NEVER_UM>>, <<BASE, 2, NEVER_UM>>,
  <<0, 3, NEVER_UM>>, <<TOOL, BASE, NEVER_UM>>, <<1, ENV0, NEVER_UM>>, <<TOOL, ENV0, NEVER_UM>>, <<2, 5, 20000>>,
  <<ENV0 + 1, 5, NEVER_UM>>, <<1, 2, NEVER_UM>> >>

VARIABLES tool, base, nenv, entries    \* entries: set of candidate indices
vars == <<tool, base, nenv, entries>>
Init == tool \in BOOLEAN /\ base \in BOOLEAN /\ nenv \in 0..2 /\ entries = {}
AddEntry(i) ==
  /\ Cardinality(entries) < MaxEntries /\ i \notin entries
  /\ \A j \in entries : j < i                       \* canonical order: no duplicate sets
  /\ entries' = entries \cup {i} /\ UNCHANGED <<tool, base, nenv>>
Next == \E i \in 1..Len(Candidates) : AddEntry(i)
Spec == Init /\ [][Next]_vars

Cfg == [tool |-> tool, base |-> base, nenv |-> nenv, table |-> {Candidates[i] : i \in entries},
        def_env |-> 0, def_robot |-> 0]
SetToSeq(S) == LET RECURSIVE F(_) F(T) == IF T = {} THEN <<>> ELSE LET x == CHOOSE y \in T : TRUE IN <<x>> \o F(T \ {x}) IN F(S)

\* model sanity: every pair that must be checked is relevant, the full check covers every non-exempt pair,
\* and moving a later joint never requires more pairs than moving an earlier one
Sane == /\ \A k \in 0..5 : MustCheck(Cfg, 0..(k - 1)) \subseteq Relevant(Cfg)
        /\ MustCheck(Cfg, {}) = {p \in Relevant(Cfg) : ~Exempt(Cfg, p)}
        /\ \A k \in 1..5 : MustCheck(Cfg, 0..(k - 1)) \subseteq MustCheck(Cfg, 0..(k - 2))

Emit == PrintT(ToJson([gen |-> "tasks", tool |-> tool, base |-> base, nenv |-> nenv,
                       table |-> SetToSeq(Cfg.table), relevant |-> SetToSeq(Relevant(Cfg)),
                       must |-> [k \in 1..6 |-> SetToSeq(MustCheck(Cfg, 0..(k - 2)))],
                       rmin |-> SetToSeq({<<p[1], p[2], Rmin(Cfg, p)>> : p \in Relevant(Cfg)})]))
=============================================================================
