SPECIFICATION Spec
INVARIANTS Symmetric Emit
CHECK_DEADLOCK FALSE
