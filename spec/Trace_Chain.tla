----------------------------- MODULE Trace_Chain -----------------------------
(***************************************************************************)
(* Trace specification for forward kinematics on random real robots        *)
(* (binding B3 of C03).  Each event is one call of forward +               *)
(* forward_with_joint_poses; the numeric facts (distance of every link     *)
(* pose from the independent link chain, in nm / nrad) are computed by the *)
(* harness' float oracle, which is itself replayed against the exact       *)
(* TLA+ chain (Gen_Chain).  The spec states which facts a correct          *)
(* forward-kinematics action admits.                                       *)
(***************************************************************************)
EXTENDS Integers, Sequences, TLC, Json, IOUtils

Rec == ndJsonDeserialize(IOEnv.TRACE)
VARIABLE l

TOL == 2   \* nm, nrad (float noise of two independent evaluations is ~1e-6 nm)

AllLE(s, b) == \A i \in DOMAIN s : s[i] <= b

Judge(e) ==
  IF e.outcome # "ok" THEN {"forward-panics"}
  ELSE (IF ~AllLE(e.pos_nm, TOL) \/ ~AllLE(e.rot_nrad, TOL) THEN {"link-pose-differs-from-chain"} ELSE {})
       \cup (IF e.fwd_pos_nm > TOL \/ e.fwd_rot_nrad > TOL THEN {"forward-differs-from-chain"} ELSE {})
       \cup (IF e.fwd_vs_last_nm > TOL \/ e.fwd_vs_last_nrad > TOL THEN {"forward-differs-from-last-link"} ELSE {})
       \cup (IF ~AllLE(e.improper_n, TOL) THEN {"improper-rotation"} ELSE {})
       \cup (IF ~AllLE(e.offset_nm, TOL) THEN {"link-origin-offset-wrong"} ELSE {})

Init == l = 1
Next ==
  /\ l <= Len(Rec)
  /\ LET bad == Judge(Rec[l]) IN
       bad = {} \/ PrintT(ToJson([tag |-> "viol", l |-> l, clause |-> bad]))
  /\ TLCSet(1, l)
  /\ l' = l + 1
Spec == Init /\ [][Next]_l
Post == PrintT(ToJson([tag |-> "done", n |-> IF Len(Rec) = 0 THEN 0 ELSE TLCGet(1)]))
=============================================================================
