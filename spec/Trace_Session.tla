---------------------------- MODULE Trace_Session ----------------------------
(***************************************************************************)
(* Histories of constraint objects (C07, C18): a trace is a sequence of    *)
(* operations on several live `Constraints' objects.  The specification    *)
(* keeps the abstract state of every object (its limits and sorting        *)
(* weight) and judges every observation against THAT state, not against    *)
(* anything logged with the observation: a stale centre or tolerance after *)
(* update_range, a weight changed by update_range, limits of one object    *)
(* leaking into another are all visible only along a history.              *)
(*                                                                         *)
(*  new {id, from, to, w16}         Constraints::new / from_degrees        *)
(*  update {id, from, to}           update_range                           *)
(*  compliant {id, a, acc}          compliant(a)                           *)
(*  sample {id, a | outcome}        random_angles()                        *)
(*  observe {id, from, to, w16, centre_acc}  public fields and compliant(centers) *)
(***************************************************************************)
EXTENDS Limits, TLC, Json, IOUtils
Rec == ndJsonDeserialize(IOEnv.TRACE)

VARIABLES l, objs      \* objs: function from object id to [from, to, w16]
vars == <<l, objs>>

Known(e) == e.id \in DOMAIN objs
O(e) == objs[e.id]
Decided(o, q) == ~AmbiguousVec(o.from, o.to, N_AU) /\ EndDistVec(o.from, o.to, q, N_AU) >= BandLim

Judge(e) ==
  CASE e.ev \in {"new"} -> {}
    [] ~Known(e) -> {"harness:unknown-object"}
    [] e.ev = "update" -> {}
    [] e.ev = "compliant" ->
         IF Decided(O(e), e.a) /\ e.acc # OnArcVec(O(e).from, O(e).to, e.a, N_AU)
         THEN {"C07:compliant-differs-from-current-limits"} ELSE {}
    [] e.ev = "sample" ->
         IF e.outcome = "panic" THEN (IF AmbiguousVec(O(e).from, O(e).to, N_AU) THEN {} ELSE {"C18:sampler-panics"})
         ELSE IF Decided(O(e), e.a) /\ ~OnArcVec(O(e).from, O(e).to, e.a, N_AU) THEN {"C18:sample-off-current-arc"} ELSE {}
    [] e.ev = "observe" ->
         (IF e.from # O(e).from \/ e.to # O(e).to THEN {"C07:reported-limits-differ-from-those-set"} ELSE {})
         \cup (IF e.w16 # O(e).w16 THEN {"C07:sorting-weight-changed"} ELSE {})
         \cup (IF ~e.centre_acc /\ ~AmbiguousVec(O(e).from, O(e).to, N_AU) THEN {"C07:centre-rejected"} ELSE {})
    [] OTHER -> {"unknown-event"}

Apply(e) ==
  CASE e.ev = "new" -> [i \in DOMAIN objs \cup {e.id} |-> IF i = e.id THEN [from |-> e.from, to |-> e.to, w16 |-> e.w16] ELSE objs[i]]
    [] e.ev = "update" /\ Known(e) -> [objs EXCEPT ![e.id] = [from |-> e.from, to |-> e.to, w16 |-> @.w16]]
    [] OTHER -> objs

Init == l = 1 /\ objs = [i \in {} |-> 0]
Next ==
  /\ l <= Len(Rec)
  /\ LET e == Rec[l]  bad == Judge(e) IN
       /\ (bad = {} \/ PrintT(ToJson([tag |-> "viol", l |-> l, clause |-> bad])))
       /\ objs' = Apply(e)
  /\ TLCSet(1, l)
  /\ l' = l + 1
Spec == Init /\ [][Next]_vars
Post == PrintT(ToJson([tag |-> "done", n |-> IF Len(Rec) = 0 THEN 0 ELSE TLCGet(1)]))
=============================================================================
