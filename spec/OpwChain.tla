------------------------------ MODULE OpwChain ------------------------------
(***************************************************************************)
(* The OPW link model: the tool flange pose is the product of six          *)
(* elementary joint transforms (translate by the parameter defined offset, *)
(* rotate about the joint axis).  This is the independent reference of     *)
(* properties C03 (forward kinematics), C02/C06 (poses of lattice          *)
(* configurations) and C15 (geometric Jacobian: joint axes and origins).   *)
(*                                                                         *)
(* `p' is a record of integer lengths a1, a2, b, c1..c4 (in a length unit  *)
(* chosen by the harness), `e' a sequence of six lattice angle indices:    *)
(* the EFFECTIVE joint angles, i.e. after the robot's sign corrections and *)
(* offsets have been applied (the code computes e = q * sign - offset; the *)
(* harness supplies q = sign * (e + offset)).                              *)
(***************************************************************************)
EXTENDS Lattice

JointAxis  == <<"z", "y", "y", "z", "y", "z">>
LinkOffset(p) == << <<0, 0, p.c1>>, <<p.a1, p.b, 0>>, <<0, 0, p.c2>>,
                    <<p.a2, 0, 0>>, <<0, 0, p.c3>>, <<0, 0, p.c4>> >>

\* pose of link i (1..6); link 6 is the tool flange
RECURSIVE LinkPose(_, _, _)
LinkPose(p, e, i) ==
  IF i = 0 THEN IdIso
  ELSE Compose(LinkPose(p, e, i - 1), Step(LinkOffset(p)[i], JointAxis[i], e[i]))

Fk(p, e) == LinkPose(p, e, 6)
\* all six at once (six compositions; same value as [i \in 1..6 |-> LinkPose(p, e, i)])
LinkPoses(p, e) ==
  LET o  == LinkOffset(p)
      l1 == Step(o[1], JointAxis[1], e[1])
      l2 == Compose(l1, Step(o[2], JointAxis[2], e[2]))
      l3 == Compose(l2, Step(o[3], JointAxis[3], e[3]))
      l4 == Compose(l3, Step(o[4], JointAxis[4], e[4]))
      l5 == Compose(l4, Step(o[5], JointAxis[5], e[5]))
      l6 == Compose(l5, Step(o[6], JointAxis[6], e[6]))
  IN <<l1, l2, l3, l4, l5, l6>>

\* wrist-flipped twin (J4 + 180, -J5, J6 - 180) in effective angles
Twin(e) == <<e[1], e[2], e[3], AddQuarter(e[4], 2), NegAngle(e[5]), AddQuarter(e[6], 2)>>

\* unit axis (scaled by 5^n of the link) of joint i in the world frame
AxisLocal(i) == CASE JointAxis[i] = "z" -> <<0, 0, 1>> [] JointAxis[i] = "y" -> <<0, 1, 0>> [] OTHER -> <<1, 0, 0>>
JointAxisWorld(p, e, i) == MatVec(LinkPose(p, e, i).R, AxisLocal(i))

\* ---- structural properties of the model (checked by MC_Chain) ---------------
\* link pose i depends only on joints 1..i
PrefixOnly(p, e1, e2, i) == (\A k \in 1..i : e1[k] = e2[k]) => LinkPose(p, e1, i) = LinkPose(p, e2, i)

\* consecutive link origins are separated by exactly R_{i-1} * offset_i
OffsetOk(p, e, i) ==
  LET A == LinkPose(p, e, i - 1)  B == LinkPose(p, e, i) IN
  \* B.t / 5^B.n - A.t / 5^A.n = A.R offset / 5^A.n   (cross-multiplied)
  VecSub(VecScale(Pow5(A.n), B.t), VecScale(Pow5(B.n), A.t)) = VecScale(Pow5(B.n), MatVec(A.R, LinkOffset(p)[i]))
=============================================================================
