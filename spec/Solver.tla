------------------------------- MODULE Solver -------------------------------
(***************************************************************************)
(* The contract of the inverse kinematics entry points (properties C01,    *)
(* C02, C04, C06, C08), stated over one call observed at its return.       *)
(*                                                                         *)
(* A call `c' is a record (produced by the harness, see Trace_Solver):     *)
(*   entry    "inverse" | "inverse_continuing" | "inverse_5dof" |          *)
(*            "inverse_continuing_5dof"                                    *)
(*   dof      5 | 6        robot's declared degrees of freedom             *)
(*   pose_ok  the requested pose has only finite components                *)
(*   reach    "yes" | "no" | "edge"   oracle: inside / outside / on the    *)
(*            boundary of the reachable region                             *)
(*   prev     six angles (AU) or <<>> for the CONSTRAINT_CENTERED sentinel *)
(*   prev_in_range  every previous angle is within +-2 pi                  *)
(*   j6_equal per answer: J6 carries exactly (bitwise) the caller's value  *)
(*   w16      sorting weight in sixteenths, 0 when there are no limits     *)
(*   centres  centres of the limit ranges (zeros without limits)           *)
(*   lim      TRUE when limits are attached; from, to the limits (AU)      *)
(*   answers  sequence of [q, finite, pos_nm, rot_nrad, axis_nrad]: the    *)
(*            angles in AU and the distance of the independent forward     *)
(*            model of the same robot (stack) at q from the requested pose *)
(*   plain    answers (AU) of plain `inverse' for the same pose            *)
(*   free     answers (AU) of the same call on the twin robot w/o limits   *)
(*   truth    [known, q, nonsingular, wrist_ok, realised_by_prev]          *)
(*   resolve  sizes of the answer sets for the poses of the answers        *)
(*   pgram    the wrapper stack contains a parallelogram coupling (answers  *)
(*            are re-coupled after the leaf solver ordered them)           *)
(*   j6_finite  the requested J6 (argument or previous J6) is finite           *)
(*   huge     the previous vector is of the order of 1e9 turns (soundness only) *)
(*   fwd_n    distance of the stack's forward / link poses from the model   *)
(*   lim_reported  Kinematics::constraints() of the stack equals the limits     *)
(*            given to the innermost robot (or none)                       *)
(*   n_answers  length of the returned list (answers: its first sixteen)       *)
(*   rep_prad distance (1e-12 rad) of the continuation answers from whole-turn   *)
(*            shifts of the plain solutions they stand for                      *)
(*   twin_shift5  2 * sign5 * offset5 (AU): the wrist twin negates the     *)
(*            geometric J5                                                 *)
(***************************************************************************)
EXTENDS Limits

TOL_NM == 1001        \* 1 micrometre + 1 nm slack
TOL_NRAD == 1001      \* 1 microradian + 1 nrad slack
EQ_AU == 3            \* two quantised angles closer than this are "the same"
FiveDof(c) == c.entry \in {"inverse_5dof", "inverse_continuing_5dof"} \/ c.dof = 5
Continuing(c) == c.entry \in {"inverse_continuing", "inverse_continuing_5dof"}

SameMod(u, v) == \A j \in 1..6 : CircDist(u[j], v[j], N_AU) <= EQ_AU
Same(u, v) == \A j \in 1..6 : Abs(u[j] - v[j]) <= EQ_AU
\* first five joints only (5-DOF: J6 is the caller's, not solved for)
SameMod5(u, v) == \A j \in 1..5 : CircDist(u[j], v[j], N_AU) <= EQ_AU
Qs(c) == [i \in 1..Len(c.answers) |-> c.answers[i].q]

\* ---- C01 soundness ------------------------------------------------------------
Sound(c) ==
  LET bad(a) == \/ ~a.finite
                \/ a.pos_nm > TOL_NM
                \/ (IF FiveDof(c) THEN a.axis_nrad > TOL_NRAD ELSE a.rot_nrad > TOL_NRAD)
  IN (IF \E i \in 1..Len(c.answers) : bad(c.answers[i]) THEN {"C01:answer-misses-pose"} ELSE {})
     \* (a parallelogram re-couples a joint after the leaf normalised it: the range clause is the leaf's)
     \cup (IF c.entry = "inverse" /\ c.dof = 6 /\ ~c.pgram /\
              \E i \in 1..Len(c.answers) : \E j \in 1..6 : Abs(c.answers[i].q[j]) > HALF_AU + 1
           THEN {"C01:plain-inverse-not-normalised"} ELSE {})
     \cup (IF (~c.pose_ok \/ c.reach = "no") /\ c.answers # <<>> THEN {"C01:answers-for-impossible-pose"} ELSE {})

\* ---- C02 completeness, closure, no duplicates (plain inverse, 6 DOF, away from singularities) ----
\* J5 is negated geometrically: in robot coordinates that is -q5 + 2 * sign5 * offset5 (c.twin_shift5)
Twin(c, q) == <<q[1], q[2], q[3], q[4] + HALF_AU, c.twin_shift5 - q[5], q[6] - HALF_AU>>
Complete(c) ==
  IF ~(c.entry = "inverse" /\ c.dof = 6 /\ c.truth.known /\ c.truth.nonsingular) THEN {}
  ELSE IF c.pgram THEN
    \* through a coupling: the originating configuration is among the answers (the twin and the limits are the leaf's)
    (IF ~c.lim /\ ~\E i \in 1..Len(c.answers) : SameMod(c.answers[i].q, c.truth.q)
     THEN {"C02:originating-configuration-missing"} ELSE {})
  ELSE LET qs == Qs(c)
           inTol(q) == ~c.lim \/ (OnArcVec(c.from, c.to, q, N_AU) /\ EndDistVec(c.from, c.to, q, N_AU) >= BandLim)
       IN (IF inTol(c.truth.q) /\ ~\E i \in 1..Len(qs) : SameMod(qs[i], c.truth.q)
           THEN {"C02:originating-configuration-missing"} ELSE {})
          \cup (IF ~c.lim /\ \E i \in 1..Len(qs) : ~\E k \in 1..Len(qs) : SameMod(qs[k], Twin(c, qs[i]))
                THEN {"C02:wrist-twin-missing"} ELSE {})
          \* (more than sixteen answers - the harness passes on the first sixteen - cannot be distinct: there are eight branches)
          \cup (IF c.n_answers > 16 \/ \E i, k \in 1..Len(qs) : i < k /\ SameMod(qs[i], qs[k]) THEN {"C02:duplicate-answers"} ELSE {})
          \cup (IF ~c.lim /\ \E i \in 1..Len(c.resolve) : c.resolve[i] # Len(qs)
                THEN {"C02:answer-set-not-closed"} ELSE {})
          \cup (IF ~c.lim /\ (Len(qs) % 2 = 1 \/ Len(qs) > 8) THEN {"C02:odd-or-too-many-answers"} ELSE {})

\* the 5-DOF solver is complete in J1..J5 as well: originating J1..J5 and its wrist twin (J4 + pi, -J5)
Complete5(c) ==
  IF ~(FiveDof(c) /\ c.j6_finite /\ ~c.pgram /\ c.truth.known /\ c.truth.nonsingular /\ c.reach = "yes" /\ ~c.lim /\ c.pose_ok) THEN {}
  ELSE LET qs == Qs(c) IN
    (IF ~\E i \in 1..Len(qs) : SameMod5(qs[i], c.truth.q) THEN {"C02:five-dof-originating-configuration-missing"} ELSE {})
    \cup (IF \E i \in 1..Len(qs) : ~\E k \in 1..Len(qs) : SameMod5(qs[k], Twin(c, qs[i]))
          THEN {"C02:five-dof-wrist-twin-missing"} ELSE {})

\* ---- C04 continuation ordering ----------------------------------------------------
Ref(c) == IF c.prev = <<>> THEN c.centres ELSE c.prev
Cost16(c, q) == (16 - c.w16) * Dist1(q, Ref(c)) + c.w16 * Dist1(q, c.centres)
COST_BAND == 16 * 14
\* Through a parallelogram coupling only the nearest-representative clause is stated (the wrapper re-couples a joint
\* after the wrapped solver ordered its own, de-coupled vectors, so cost order and "previous first" are the leaf's).
Ordered(c) ==
  IF ~(Continuing(c) /\ c.prev_in_range) THEN {}
  ELSE IF c.pgram THEN
    (IF \E i \in 1..Len(c.answers) : \E j \in 1..(IF FiveDof(c) THEN 5 ELSE 6) :
           Abs(c.answers[i].q[j]) > 9000000 \/ Abs(c.answers[i].q[j] - Ref(c)[j]) > HALF_AU + EQ_AU
     THEN {"C04:not-nearest-representative"} ELSE {})
  ELSE LET qs == Qs(c) IN
    \* previous is within +-2 pi here, so every answer must be within +-3 pi; anything beyond +-900 degrees (clamped or
    \* non-finite values) is flagged without doing arithmetic on it (32-bit integers)
    IF \E i \in 1..Len(qs) : \E j \in 1..6 : Abs(qs[i][j]) > 9000000 THEN {"C04:not-nearest-representative"} ELSE
    (IF \E i \in 1..Len(qs) : \E j \in 1..(IF FiveDof(c) THEN 5 ELSE 6) : Abs(qs[i][j] - Ref(c)[j]) > HALF_AU + EQ_AU
     THEN {"C04:not-nearest-representative"} ELSE {})
    \cup (IF \E i \in 1..(Len(qs) - 1) : Cost16(c, qs[i]) > Cost16(c, qs[i + 1]) + COST_BAND
          THEN {"C04:not-sorted-by-cost"} ELSE {})
    \cup (IF \E k \in 1..Len(c.plain) : ~\E i \in 1..Len(qs) :
                IF FiveDof(c) THEN SameMod5(qs[i], c.plain[k]) ELSE SameMod(qs[i], c.plain[k])
          THEN {"C04:plain-solution-dropped"} ELSE {})
    \* a representative differs from the plain solution by whole turns and by nothing else (c.rep_prad: the largest
    \* remainder, in 1e-12 rad, over the answers that are plain solutions to 1e-5 rad; away from the wrist singularity,
    \* where continuation does not re-distribute J4 / J6)
    \cup (IF c.truth.wrist_ok /\ c.rep_prad > 1000 THEN {"C04:not-a-whole-turn-representative-of-the-plain-solution"} ELSE {})
    \* (the documented cost is the distance to previous only when the weight is 0)
    \cup (IF c.truth.known /\ c.truth.realised_by_prev /\ c.truth.wrist_ok /\ c.prev # <<>> /\ c.w16 = 0 /\
             (~c.lim \/ (OnArcVec(c.from, c.to, c.prev, N_AU) /\ EndDistVec(c.from, c.to, c.prev, N_AU) >= BandLim)) /\
             (qs = <<>> \/ ~Same(qs[1], c.prev))
          THEN {"C04:previous-not-first"} ELSE {})

\* ---- C06 5-DOF contract -----------------------------------------------------------
FiveDofOk(c) ==
  IF ~FiveDof(c) \/ ~c.j6_finite THEN {}      \* (a non-finite J6 request is answered by nothing: Sound demands finite answers)
  ELSE LET qs == Qs(c) IN
    (IF \E i \in 1..Len(c.j6_equal) : ~c.j6_equal[i] THEN {"C06:j6-not-the-callers"} ELSE {})
    \cup (IF "C01:answer-misses-pose" \in Sound(c) THEN {"C06:tool-point-or-axis-missed"} ELSE {})
    \* (with limits: when the originating vector - with the caller's J6 - is inside them, clear of the ends)
    \cup (IF c.truth.known /\ c.truth.nonsingular /\ c.reach = "yes" /\ ~c.pgram /\
             (~c.lim \/ (c.truth5_in_limits /\ ~AmbiguousVec(c.from, c.to, N_AU))) /\
             ~\E i \in 1..Len(qs) : SameMod5(qs[i], c.truth.q)
          THEN {"C06:originating-j1-j5-missing"} ELSE {})
    \cup (IF c.dof = 5 /\ c.truth.known /\ c.truth.nonsingular /\ c.reach = "yes" /\ ~c.lim /\ qs = <<>>
          THEN {"C06:five-dof-robot-returns-nothing"} ELSE {})

\* ---- C08 constrained = compliant subset of unconstrained ----------------------------
Decidable(c, q) == EndDistVec(c.from, c.to, q, N_AU) >= BandLim /\ ~AmbiguousVec(c.from, c.to, N_AU)
Constrained(c) ==
  IF ~c.lim \/ c.huge THEN {}      \* (answers normalised near a previous of ~1e10 rad do not fit the AU integers)
  ELSE LET qs == Qs(c)
           \* (J6 included also for the 5-DOF variants: both calls carry the caller's J6)
           eq(u, v) == SameMod(u, v)
       IN
    (IF \E i \in 1..Len(qs) : Decidable(c, qs[i]) /\ ~OnArcVec(c.from, c.to, qs[i], N_AU)
     THEN {"C08:answer-outside-limits"} ELSE {})
    \cup (IF \E k \in 1..Len(c.free) : Decidable(c, c.free[k]) /\ OnArcVec(c.from, c.to, c.free[k], N_AU)
                                       /\ ~\E i \in 1..Len(qs) : eq(qs[i], c.free[k])
          THEN {"C08:compliant-solution-dropped"} ELSE {})
    \* (at a wrist singularity the solutions form a continuum, of which the constrained solver may
    \*  legitimately return a different, compliant member)
    \cup (IF c.truth.known /\ c.truth.wrist_ok /\ \E i \in 1..Len(qs) : ~\E k \in 1..Len(c.free) : eq(qs[i], c.free[k])
          THEN {"C08:answer-not-among-unconstrained"} ELSE {})

\* "The limits a wrapper reports are those of the robot it wraps" (from, to, centres, tolerances, weight)
Reported(c) == IF c.lim_reported THEN {} ELSE {"C08:wrapper-reports-other-limits"}

\* ---- C16: through a parallelogram coupling every answer still maps back onto the pose ----
Coupled(c) ==
  IF c.pgram /\ "C01:answer-misses-pose" \in Sound(c) THEN {"C16:answer-misses-pose-through-coupling"} ELSE {}

\* ---- C09 / C16: the stack's own forward kinematics and link poses at the truth configuration ----
\* c.fwd_n: distance (nm / nrad) of forward and link poses from bases * chain(de-coupled joints) * tools
ForwardOk(c) ==
  IF c.fwd_n <= 2 THEN {}
  ELSE IF c.pgram THEN {"C16:forward-or-link-poses-differ-from-inner-robot-at-reduced-vector"}
  ELSE {"C09:forward-or-link-poses-differ-from-base-robot-tool"}

Contract(c) == ForwardOk(c) \cup Complete5(c) \cup Sound(c) \cup Complete(c) \cup Ordered(c) \cup FiveDofOk(c) \cup Constrained(c) \cup Reported(c) \cup Coupled(c)
=============================================================================
