----------------------------- MODULE SolverImpl -----------------------------
(***************************************************************************)
(* The pipeline of OPWKinematics::inverse_continuing as the code runs it,  *)
(* over ABSTRACT candidates: what the numeric kernel (closed form, forward *)
(* cross-check, limit test) answers is chosen nondeterministically, so     *)
(* TLC explores every path through the control flow:                       *)
(*                                                                         *)
(*   for each of the four probing shifts d (0 = the requested pose):       *)
(*     ik := Intern(d)          candidates already verified against the    *)
(*                              pose SHIFTED by d (finite, cross-checked)  *)
(*     if solutions = <<>> then solutions := ik      (unshifted comes first)*)
(*     for the FIRST singular candidate of ik:                             *)
(*        now := Redistribute(candidate)             J4/J6 near previous   *)
(*        if Verify(now) /\ Compliant(now) then push now; leave all loops  *)
(*        leave the inner loop                                             *)
(*   normalise near previous; sort; filter by the limits                   *)
(*                                                                         *)
(* A candidate is a record [id, shift, sing, rec] plus facts chosen at     *)
(* Init: ok0[id] (it reproduces the REQUESTED pose within tolerance),      *)
(* inlim[id], recok[id] (the redistributed vector reproduces the requested *)
(* pose), reclim[id].  The contract (module Solver: Sound + Constrained)   *)
(* is checked on `Return'.  The model shows one named deviation:           *)
(* candidates of a shifted pose are verified against the shifted pose      *)
(* only, so when the unshifted solve returns nothing they enter the answer *)
(* with an error bound of tolerance + shift (ShiftedLeak).                 *)
(***************************************************************************)
EXTENDS Integers, Sequences, FiniteSets

CONSTANTS NC      \* candidates per shift (the real solver has up to 8)

Shifts == 0..3
Ids == 1..(4 * NC)
IdOf(d, i) == d * NC + i

VARIABLES present, sing, ok0, inlim, recok, reclim,     \* facts (chosen initially)
          d, i, solutions, phase, recovered             \* control state
vars == <<present, sing, ok0, inlim, recok, reclim, d, i, solutions, phase, recovered>>

Init ==
  /\ present \in [Ids -> BOOLEAN] /\ sing \in [Ids -> BOOLEAN]
  /\ ok0 \in [Ids -> BOOLEAN] /\ inlim \in [Ids -> BOOLEAN]
  /\ recok \in [Ids -> BOOLEAN] /\ reclim \in [Ids -> BOOLEAN]
  \* a candidate of the unshifted pose was cross-checked against the requested pose itself
  /\ \A k \in 1..NC : present[IdOf(0, k)] => ok0[IdOf(0, k)]
  \* facts that cannot influence the run are fixed (absent candidates; recovery facts of non-singular ones)
  /\ \A c \in Ids : ~present[c] => (~sing[c] /\ ~ok0[c] /\ ~inlim[c])
  /\ \A c \in Ids : ~sing[c] => (~recok[c] /\ ~reclim[c])
  /\ d = 0 /\ i = 1 /\ solutions = <<>> /\ phase = "solve" /\ recovered = FALSE

Ik(s) == SelectSeq([k \in 1..NC |-> IdOf(s, k)], LAMBDA c : present[c])

Solve ==
  /\ phase = "solve"
  /\ solutions' = IF solutions = <<>> THEN [k \in 1..Len(Ik(d)) |-> [id |-> Ik(d)[k], rec |-> FALSE]] ELSE solutions
  /\ i' = 1 /\ phase' = "scan" /\ UNCHANGED <<present, sing, ok0, inlim, recok, reclim, d, recovered>>

NextShift == IF d = 3 THEN phase' = "finish" /\ d' = d ELSE phase' = "solve" /\ d' = d + 1

Scan ==
  /\ phase = "scan"
  /\ IF i > Len(Ik(d)) THEN NextShift /\ UNCHANGED <<i, solutions, recovered>>
     ELSE LET c == Ik(d)[i] IN
          IF sing[c]
          THEN IF recok[c] /\ reclim[c]
               THEN /\ solutions' = Append(solutions, [id |-> c, rec |-> TRUE])
                    /\ recovered' = TRUE /\ phase' = "finish" /\ UNCHANGED <<d, i>>          \* break 'shifts
               ELSE NextShift /\ UNCHANGED <<i, solutions, recovered>>                        \* break (inner loop)
          ELSE i' = i + 1 /\ UNCHANGED <<d, phase, solutions, recovered>>
  /\ UNCHANGED <<present, sing, ok0, inlim, recok, reclim>>

Lim(s) == IF s.rec THEN reclim[s.id] ELSE inlim[s.id]
Finish ==
  /\ phase = "finish"
  /\ solutions' = SelectSeq(solutions, Lim)       \* (normalisation and sorting do not change membership)
  /\ phase' = "returned" /\ UNCHANGED <<present, sing, ok0, inlim, recok, reclim, d, i, recovered>>

Next == Solve \/ Scan \/ Finish
Spec == Init /\ [][Next]_vars

\* ---- the contract on Return -------------------------------------------------------------
Good(s) == IF s.rec THEN recok[s.id] ELSE ok0[s.id]
Returned == phase = "returned"
AllInLimits == Returned => \A k \in 1..Len(solutions) : Lim(solutions[k])
AtMostOneRecovered == Cardinality({k \in 1..Len(solutions) : solutions[k].rec}) <= 1
\* every unshifted candidate that is inside the limits is returned (the continuation never loses a plain solution)
KeepsPlain == Returned => \A k \in 1..NC : (present[IdOf(0, k)] /\ inlim[IdOf(0, k)]) =>
                              \E m \in 1..Len(solutions) : solutions[m].id = IdOf(0, k) /\ ~solutions[m].rec
\* soundness: holds for every answer EXCEPT candidates taken over from a shifted pose
Sound == Returned => \A k \in 1..Len(solutions) :
            Good(solutions[k]) \/ (~solutions[k].rec /\ solutions[k].id > NC)
\* the named deviation: when it can happen (reported by MC as a reachable state, not required to be unreachable)
ShiftedLeak == Returned /\ \E k \in 1..Len(solutions) : ~solutions[k].rec /\ solutions[k].id > NC
NoShiftedLeak == ~ShiftedLeak
=============================================================================
