SPECIFICATION Spec
INVARIANTS TokensDocumented PrinterCovered Emit
CHECK_DEADLOCK FALSE
