------------------------------- MODULE Stack -------------------------------
(***************************************************************************)
(* Wrapper stacks around a kinematic solver (src/tool.rs, src/frame.rs,    *)
(* src/parallelogram.rs, LinearAxis / Gantry): every wrapper implements    *)
(* the same eight operations by delegating to the robot it wraps.          *)
(*                                                                         *)
(* A stack is a sequence of layers, OUTERMOST FIRST; the innermost layer   *)
(* wraps the leaf solver.  A layer is a record with field k in             *)
(*   "Tool"  [iso]   pose = inner * iso                                    *)
(*   "Frame" [iso]   acts like a tool                                      *)
(*   "Base"  [iso]   pose = iso * inner                                    *)
(*   "Pgram" [driven, coupled, scaling]  joint coupling (module Coupling)  *)
(* The specification of C09: forward = bases * leaf * tools; every inverse *)
(* entry point reaches the leaf as THE SAME entry point, with the pose     *)
(* rewritten by the inverse transforms and `previous' / J6 untouched;      *)
(* answers come back unchanged; link poses: tool none, base all, frame     *)
(* only the last.                                                          *)
(***************************************************************************)
EXTENDS Lattice

Entries == {"inverse", "inverse_continuing", "inverse_5dof", "inverse_continuing_5dof"}

IsoKinds == {"Tool", "Frame", "Base"}

\* LinearAxis / Gantry (forward kinematics only, not solvers themselves: always outermost):
\*   "Axis"   [iso, axis, dist]   pose = iso * shift(dist along axis 0|1|2) * inner
\*   "Gantry" [iso, shift]        pose = iso * shift * inner
AxisShift(axis, d) == CASE axis = 0 -> Trans(d, 0, 0) [] axis = 1 -> Trans(0, d, 0) [] OTHER -> Trans(0, 0, d)

\* ---- forward direction ---------------------------------------------------------
\* pose reported by one layer given the pose reported by what it wraps
LayerForward(L, inner) ==
  CASE L.k = "Tool"  -> Compose(inner, L.iso)
    [] L.k = "Frame" -> Compose(inner, L.iso)
    [] L.k = "Base"  -> Compose(L.iso, inner)
    [] L.k = "Axis"  -> Compose(L.iso, Compose(AxisShift(L.axis, L.dist), inner))
    [] L.k = "Gantry" -> Compose(L.iso, Compose(Trans(L.shift[1], L.shift[2], L.shift[3]), inner))
    [] OTHER         -> inner

RECURSIVE StackForward(_, _)
StackForward(stack, leafPose) ==
  IF stack = <<>> THEN leafPose
  ELSE LayerForward(Head(stack), StackForward(Tail(stack), leafPose))

\* link poses reported by one layer
LayerLinks(L, inner) ==
  CASE L.k = "Tool"  -> inner
    [] L.k = "Frame" -> [i \in 1..6 |-> IF i = 6 THEN Compose(inner[6], L.iso) ELSE inner[i]]
    [] L.k = "Base"  -> [i \in 1..6 |-> Compose(L.iso, inner[i])]
    [] OTHER         -> inner

RECURSIVE StackLinks(_, _)
StackLinks(stack, leafLinks) ==
  IF stack = <<>> THEN leafLinks
  ELSE LayerLinks(Head(stack), StackLinks(Tail(stack), leafLinks))

\* ---- inverse direction: what one layer asks of the robot it wraps ----------------
LayerRewrite(L, pose) ==
  CASE L.k = "Tool"  -> Compose(pose, Inverse(L.iso))
    [] L.k = "Frame" -> Compose(pose, Inverse(L.iso))
    [] L.k = "Base"  -> Compose(Inverse(L.iso), pose)
    [] OTHER         -> pose

RECURSIVE LeafPose(_, _)
LeafPose(stack, pose) ==
  IF stack = <<>> THEN pose ELSE LeafPose(Tail(stack), LayerRewrite(Head(stack), pose))

\* every layer keeps the entry point (this is the delegation matrix the code must realise)
LayerEntry(L, entry) == entry
RECURSIVE LeafEntry(_, _)
LeafEntry(stack, entry) ==
  IF stack = <<>> THEN entry ELSE LeafEntry(Tail(stack), LayerEntry(Head(stack), entry))

\* the spec's own round trip: asking for the pose the stack reports leads back to the leaf pose
RoundTrip(stack, leafPose) == SameIso(LeafPose(stack, StackForward(stack, leafPose)), leafPose)

\* last link pose equals forward when the stack holds bases and frames only
LastLinkIsForward(stack, leafLinks) ==
  (\A i \in DOMAIN stack : stack[i].k \in {"Base", "Frame"}) =>
     StackLinks(stack, leafLinks)[6] = StackForward(stack, leafLinks[6])
=============================================================================
