----------------------------- MODULE Trace_Frame -----------------------------
(***************************************************************************)
(* Trace specification for Frame::forward_transformed (C17, binding B3):   *)
(* the returned pose is frame * FK(q) and every returned joint vector      *)
(* realises that pose (independent forward model, nm / nrad), ordered by   *)
(* closeness to the previous joints.                                       *)
(***************************************************************************)
EXTENDS Integers, Sequences, TLC, Json, IOUtils
Rec == ndJsonDeserialize(IOEnv.TRACE)
VARIABLE l
Judge(e) ==
  IF e.outcome # "ok" THEN {"C17:forward_transformed-panics"} ELSE
  (IF e.pose_pos_nm > 2 \/ e.pose_rot_nrad > 2 THEN {"C17:transformed-pose-is-not-frame-times-forward"} ELSE {})
  \cup (IF \E i \in 1..Len(e.answers) : ~e.answers[i].finite \/ e.answers[i].pos_nm > 1001 \/ e.answers[i].rot_nrad > 1001
        THEN {"C17:answer-does-not-realise-transformed-pose"} ELSE {})
  \cup (IF \E i \in 1..(Len(e.costs) - 1) : e.costs[i] > e.costs[i + 1] + 14 THEN {"C17:answers-not-ordered-by-closeness"} ELSE {})
Init == l = 1
Next ==
  /\ l <= Len(Rec)
  /\ LET bad == Judge(Rec[l]) IN bad = {} \/ PrintT(ToJson([tag |-> "viol", l |-> l, clause |-> bad]))
  /\ TLCSet(1, l)
  /\ l' = l + 1
Spec == Init /\ [][Next]_l
Post == PrintT(ToJson([tag |-> "done", n |-> IF Len(Rec) = 0 THEN 0 ELSE TLCGet(1)]))
=============================================================================
