----------------------------- MODULE ParamFiles -----------------------------
(***************************************************************************)
(* Parameter files (C19): what the library's YAML printer emits, what the  *)
(* documentation shows, and what the reader therefore has to accept.       *)
(*                                                                         *)
(* Token classes of a scalar:  "int" (integer literal), "real" (literal    *)
(* with a decimal point), "deg-int" / "deg-real" (deg(x) call).            *)
(* Value classes of a number: "integral" (e.g. b = 0, c1 = 1), "fractional"*)
(***************************************************************************)
EXTENDS Integers, Sequences, FiniteSets

LengthFields == {"a1", "a2", "b", "c1", "c2", "c3", "c4"}
ValueClasses == {"integral", "fractional"}

\* Rust's Display for f64 prints integral values without a decimal point
PrinterLengthToken(vc) == IF vc = "integral" THEN "int" ELSE "real"
PrinterOffsetToken(zero) == IF zero THEN "int" ELSE "deg-real"
PrinterDofPlace == "top"

DocumentedLengthTokens == {"int", "real"}
DocumentedOffsetTokens == {"int", "real", "deg-int", "deg-real"}
DocumentedDofPlaces == {"absent", "top", "nested"}
\* (0: the entry is left out - "offsets, sign corrections and DOF are optional")
DocumentedArrayLengths == {0, 5, 6}

\* what a correct reader accepts (printer output and every documented variant)
ReaderLengthTokens == DocumentedLengthTokens \cup {PrinterLengthToken(vc) : vc \in ValueClasses}
ReaderOffsetTokens == DocumentedOffsetTokens \cup {PrinterOffsetToken(z) : z \in BOOLEAN}
ReaderDofPlaces == DocumentedDofPlaces \cup {PrinterDofPlace}

\* the reader as originally written (named deviation, shown inadequate by MC_ParamFiles):
LegacyReaderLengthTokens == {"real"}
LegacyReaderDofPlaces == {"absent", "nested"}

\* ---- meaning of a file ----------------------------------------------------------------
\* dof: 6 unless a dof entry says 5; sign corrections: a missing sixth entry is 0, and a 5-DOF robot has
\* joint 6 blocked (sign 0); offsets: a missing sixth entry is 0
ExpectedDof(place, value) == IF place = "absent" THEN 6 ELSE value
\* (no sign array: every joint turns in the model's direction)
ExpectedSign6(nsigns, sign6, dof) == IF dof = 5 \/ nsigns = 5 THEN 0 ELSE IF nsigns = 0 THEN 1 ELSE sign6
=============================================================================
