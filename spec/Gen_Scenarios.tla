--------------------------- MODULE Gen_Scenarios ---------------------------
(***************************************************************************)
(* Scenario lattice for the inverse kinematics contract (C01, C02, C04,    *)
(* C06, C08): the discrete input classes named in the quantifiers of the   *)
(* properties.  TLC enumerates the full product of the dimensions that     *)
(* interact in the code (entry point x declared DOF x pose class x         *)
(* previous class x limit class); the remaining dimensions (geometry       *)
(* class, sign pattern, offset class, sorting weight, wrapper stack) are   *)
(* spread over the product by fixed strides so that every value of each    *)
(* is used and every pair (core scenario, value) recurs across runs with   *)
(* different seeds.  The harness instantiates each scenario with several   *)
(* seeded numeric instances and tags the events with the scenario id.      *)
(***************************************************************************)
EXTENDS Integers, Sequences, TLC, Json

CONSTANT Thorough

EntriesS == <<"inverse", "inverse_continuing", "inverse_5dof", "inverse_continuing_5dof">>
DofS     == <<6, 5>>
PoseS    == <<"generic", "j5-zero", "j5-pi", "stretched", "on-j1-axis", "unreachable", "nan", "inf", "j5-tiny", "near-j1-axis", "barely-out">>
PrevS    == <<"near", "far", "centered", "off-limits">>
LimS     == <<"none", "wide", "narrow", "wrap", "some-equal", "excluding", "beyond-turn", "sliver", "gap">>
GeomS    == <<"plain", "b-nonzero", "a2-positive", "a2-negative", "a1-negative", "a1-zero", "offsets-only", "c4-zero", "c1-zero">>
OffS     == <<"zero", "quarter", "random">>
W16S     == <<0, 4, 8, 12, 16, 5>>
StackS   == <<"bare", "tool", "base", "base+tool", "frame", "tool>base", "pgram", "tool>pgram", "pgram>pgram", "pgram>tool", "pgram>base+tool">>
Stack5S  == <<"bare", "axial-tool", "base", "base+axial-tool", "axial-frame", "base+axial-frame", "pgram5", "pgram5>base", "pgram5>base+axial-tool">>

VARIABLES en, df, po, pr, li, gx
vars == <<en, df, po, pr, li, gx>>

IsCont(e) == e \in {2, 4}
Init == /\ en \in 1..4 /\ df \in 1..2 /\ po \in 1..11 /\ li \in 1..9
        /\ pr \in (IF IsCont(en) THEN 1..4 ELSE {1})
        /\ gx \in (IF Thorough THEN 1..9 ELSE {0})
Next == UNCHANGED vars
Spec == Init /\ [][Next]_vars

Id == ((((en - 1) * 2 + (df - 1)) * 11 + (po - 1)) * 4 + (pr - 1)) * 9 + (li - 1)
Five == en \in {3, 4} \/ df = 2

Emit ==
  LET id == Id  g == IF gx = 0 THEN (id % 9) + 1 ELSE gx IN
  PrintT(ToJson([gen |-> "scenario", id |-> id * 10 + gx,
                 entry |-> EntriesS[en], dof |-> DofS[df], pose |-> PoseS[po],
                 prev |-> IF IsCont(en) THEN PrevS[pr] ELSE "none", limits |-> LimS[li],
                 geom |-> GeomS[g], signs |-> (id * 37 + 11 * g) % 64, offsets |-> OffS[((id + g) % 3) + 1],
                 w16 |-> IF li = 1 THEN 0 ELSE W16S[((id \div 6 + g) % 6) + 1],
                 stack |-> IF Five THEN Stack5S[((id + g) % 9) + 1] ELSE StackS[((id + g) % 11) + 1]]))
=============================================================================
