------------------------------ MODULE Gen_Rrt ------------------------------
(* Bounded model of module Rrt + printing of every complete behaviour for replay (C13, binding B1). *)
EXTENDS Rrt, TLC, Json
SetToSeq(S) == LET RECURSIVE F(_) F(T) == IF T = {} THEN <<>> ELSE LET x == CHOOSE y \in T : \A z \in T : y <= z IN <<x>> \o F(T \ {x}) IN F(S)
Emit == phase = "done" =>
  PrintT(ToJson([gen |-> "rrt", start |-> start, goal |-> goal, len |-> len, blocked |-> SetToSeq(blocked), stop_at |-> stopAt,
                 max_try |-> MaxTry, samples |-> samples, queries |-> queries,
                 result |-> result, ok |-> IsPath]))
=============================================================================
