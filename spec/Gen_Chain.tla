------------------------------ MODULE Gen_Chain ------------------------------
(***************************************************************************)
(* Bounded model + behaviour generator of the OPW link chain (C03, and the *)
(* source of exact poses for C02/C06/C15).  One action per joint: a state  *)
(* holds the angles chosen so far and the exact poses of the links built   *)
(* so far; complete chains (six links) are printed for replay into         *)
(* `forward' and `forward_with_joint_poses'.                               *)
(* Constants: PSets (indices into ParamSets), Angles (lattice indices      *)
(* allowed per joint).                                                     *)
(***************************************************************************)
EXTENDS OpwChain, TLC, Json

CONSTANTS PSets, Angles

ParamSets == <<
  [a1 |-> 3,  a2 |-> -1, b |-> 0,  c1 |-> 9, c2 |-> 11, c3 |-> 12, c4 |-> 2],   \* typical, a2 < 0
  [a1 |-> 2,  a2 |-> 1,  b |-> 1,  c1 |-> 6, c2 |-> 7,  c3 |-> 8,  c4 |-> 1],   \* b # 0, a2 > 0
  [a1 |-> 0,  a2 |-> 0,  b |-> 0,  c1 |-> 8, c2 |-> 8,  c3 |-> 8,  c4 |-> 2],   \* a1 = a2 = 0
  [a1 |-> -2, a2 |-> -3, b |-> -1, c1 |-> 7, c2 |-> 9,  c3 |-> 10, c4 |-> 0],   \* negative a1, b; c4 = 0
  [a1 |-> 1,  a2 |-> 2,  b |-> 3,  c1 |-> 0, c2 |-> 5,  c3 |-> 4,  c4 |-> 6],   \* c1 = 0, long tool flange
  [a1 |-> 2,  a2 |-> 1,  b |-> 0,  c1 |-> 5, c2 |-> 6,  c3 |-> -7, c4 |-> 1],   \* c3 < 0 (forward kinematics only)
  [a1 |-> 1,  a2 |-> 0,  b |-> 2,  c1 |-> 4, c2 |-> 6,  c3 |-> 0,  c4 |-> 3]    \* a2 = c3 = 0 (forward kinematics only)
>>

VARIABLES ps, e, links
vars == <<ps, e, links>>

Init == ps \in PSets /\ e = <<>> /\ links = <<>>

Joint(k) ==
  /\ Len(e) < 6
  /\ LET i == Len(e) + 1
         prev == IF i = 1 THEN IdIso ELSE links[i - 1]
     IN /\ e' = Append(e, k)
        /\ links' = Append(links, Compose(prev, Step(LinkOffset(ParamSets[ps])[i], JointAxis[i], k)))
  /\ UNCHANGED ps

Next == \E k \in Angles : Joint(k)
Spec == Init /\ [][Next]_vars

\* ---- properties of the model -------------------------------------------------
\* the incremental construction is the chain product
IsChain == \A i \in 1..Len(e) : links[i] = LinkPose(ParamSets[ps], e \o [j \in 1..(6 - Len(e)) |-> 0], i)
ProperRotations == \A i \in 1..Len(e) : Proper(links[i])
Offsets == \A i \in 2..Len(e) :
  LET A == links[i - 1]  B == links[i] IN
  VecSub(VecScale(Pow5(A.n), B.t), VecScale(Pow5(B.n), A.t))
     = VecScale(Pow5(B.n), MatVec(A.R, LinkOffset(ParamSets[ps])[i]))

Emit ==
  Len(e) = 6 => PrintT(ToJson([gen |-> "chain", p |-> ParamSets[ps], e |-> e, links |-> links]))
=============================================================================
