SPECIFICATION Spec
CONSTANTS NN = 24
          RR = 48
INVARIANT Emit
CHECK_DEADLOCK FALSE
